#!/usr/bin/env python3
"""Regenerates MANIFEST.json from checkcfg.py (run after editing the configuration)."""
import json, os, subprocess, sys
ROOT = os.path.dirname(os.path.abspath(__file__))
sys.path.insert(0, ROOT)
from checkcfg import PROPS, NOT_APPLICABLE, HOOK_COMMITS

ids = [json.loads(l)["id"] for l in open(os.path.join(ROOT, "properties.jsonl"))]
checks = []
for pid in ids:
    if pid not in PROPS:
        continue
    c = PROPS[pid]
    checks.append({
        "property_id": pid,
        "quick_cmd": "./check run %s --tier quick" % pid,
        "thorough_cmd": "./check run %s --tier thorough" % pid,
        "evidence_file": "evidence/%s.json" % pid,
        "replay_cmd_template": "./check replay %s {path}" % pid,
        "engine": "rapid-harness",
        "level_claimed": {"category": c["level"], "text": c["level_text"], "design_ref": c.get("design_ref", "DESIGN.md section 4, " + pid)},
        "level_note": c["level_note"],
        "technique": c["technique"],
    })
na = [{"property_id": p, "reason": NOT_APPLICABLE[p]} for p in ids if p not in PROPS]
m = {
    "version": 1,
    "setup_cmd": "./check setup",
    "hooks": {
        "guard": "verif",
        "enable": "Go build tag: every harness build uses -tags verif; the harness module replaces github.com/cockroachdb/errors by /repo, so each check rebuilds /repo's working tree",
        "baseline_off_cmd": "cd /repo && GOFLAGS=-mod=mod GOPROXY=off go test -vet=off -count=1 -timeout 25m ./...",
        "source_commits": HOOK_COMMITS,
        "add_only": True,
    },
    "engines": [{
        "name": "rapid-harness", "path": "harness", "serves_properties": [c["property_id"] for c in checks],
        "kind_free_text": "property-based testing: pgregory.net/rapid v1.3.0 generators over a pure-data Spec of error trees (and exhaustive "
                          "enumeration of finite grids), explicit oracles (round trip, independent model, differential, metamorphic, taint), "
                          "Spec-level reducer, python driver ./check; thorough tier adds Go native fuzzing where inputs are bytes or strings",
    }],
    "checks": checks,
    "not_applicable": na,
    "notes": "Design, findings and the mapping of seeded changes to checks are in DESIGN.md; known findings in known_findings.json.",
}
with open(os.path.join(ROOT, "MANIFEST.json"), "w") as f:
    json.dump(m, f, indent=1)
    f.write("\n")
try:
    import jsonschema
    jsonschema.validate(m, json.load(open("/root/.vp/MANIFEST.schema.json")))
    print("MANIFEST.json valid:", len(checks), "checks,", len(na), "not applicable")
except ImportError:
    print("jsonschema not available; not validated")
