#!/usr/bin/env python3
"""Runs the repository's pinned suite (guard off) and compares with /root/.vp/BASELINE.json.
Usage: tools/baseline.py [repo dir]   exit 0 iff all stable_pass tests pass."""
import json, os, subprocess, sys
repo = sys.argv[1] if len(sys.argv) > 1 else "/repo"
base = json.load(open("/root/.vp/BASELINE.json"))
env = dict(os.environ, GOFLAGS="-mod=mod", GOPROXY="off", GOSUMDB="off", GOTOOLCHAIN="local")
p = subprocess.run(["go", "test", "-json", "-vet=off", "-count=1", "-timeout", "25m", "./..."], cwd=repo, env=env, stdout=subprocess.PIPE, stderr=subprocess.STDOUT, text=True)
passed, failed = set(), set()
for line in p.stdout.splitlines():
    try:
        ev = json.loads(line)
    except ValueError:
        continue
    if ev.get("Test") and ev.get("Action") in ("pass", "fail"):
        (passed if ev["Action"] == "pass" else failed).add(ev["Package"] + "::" + ev["Test"])
missing = [t for t in base["stable_pass"] if t not in passed]
newfail = sorted(failed - set(base["always_fail"]))
print("passed %d, failed %d; baseline %d, missing %d" % (len(passed), len(failed), len(base["stable_pass"]), len(missing)))
for t in missing:
    print("MISSING", t)
for t in newfail:
    print("NEW FAILURE", t)
subprocess.run(["git", "-C", repo, "status", "--short"])
sys.exit(1 if missing else 0)
