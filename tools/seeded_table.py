#!/usr/bin/env python3
"""Prints the markdown table of seeded changes (for DESIGN.md section 10) from seeded/*/meta.json and seeded/results.json."""
import json, os, sys
ROOT = os.path.dirname(os.path.dirname(os.path.abspath(__file__)))
res = json.load(open(os.path.join(ROOT, "seeded", "results.json")))
flat = {}
for rnd, d in res.items():
    if rnd.startswith("round"):
        flat.update(d)
matrix = res.get("matrix", {})
import io
_out = io.StringIO()
_real_print = print
def print(*a):  # noqa
    _real_print(*a, file=_out)
print("| id | property | change (file: what) | needs | caught by the target check (quick), failure class | other checks that catch it (quick) | note |")
print("|---|---|---|---|---|---|---|")
for m in sorted(os.listdir(os.path.join(ROOT, "seeded"))):
    mp = os.path.join(ROOT, "seeded", m, "meta.json")
    if not os.path.exists(mp):
        continue
    meta = json.load(open(mp))
    r = flat.get(m, {})
    def cell(x):
        return str(x).replace("|", "\\|").replace("\n", " ")
    files = ", ".join(meta.get("files", []))
    summ = meta.get("summary", "")
    if len(summ) > 260:
        summ = summ[:257] + "..."
    needs = meta.get("needs", "")
    if len(needs) > 220:
        needs = needs[:217] + "..."
    caught = "**yes**: " + "; ".join(r.get("classes", [])[:2]) if r.get("caught_by_target_quick") else ("**NO**" if r else "not run")
    others = ", ".join(c for c in matrix.get(m, []) if c != meta.get("property"))
    print("| %s | %s | %s: %s | %s | %s | %s | %s |" % (m, meta.get("property"), cell(files), cell(summ), cell(needs), cell(caught), cell(others), cell(r.get("note", ""))))

table = _out.getvalue()
if "--design" in sys.argv:
    dp = os.path.join(ROOT, "DESIGN.md")
    d = open(dp).read()
    a = d.index("<!-- SEEDED-TABLE-BEGIN -->") + len("<!-- SEEDED-TABLE-BEGIN -->")
    b = d.index("<!-- SEEDED-TABLE-END -->")
    open(dp, "w").write(d[:a] + "\n" + table + d[b:])
else:
    sys.stdout.write(table)
