#!/usr/bin/env python3
"""Confirms seeded changes and runs the checks against them.

  tools/mutants.py confirm <dir>...      for each directory with patch.diff + demo_test.go (+ meta.json):
                                         in a scratch worktree of /repo: patch applies, builds, the pinned suite
                                         still passes, the demonstration fails with the patch and passes without.
  tools/mutants.py run <dir>... [--props C01,C02|all] [--tier quick]
                                         apply each patch in a scratch worktree and run the checks against that
                                         tree (VERIF_REPO); prints which checks report a violation.
Scratch worktrees live under /tmp/mutcheck and are removed afterwards. /repo itself is never modified.
"""
import json, os, shutil, subprocess, sys, time
ROOT = os.path.dirname(os.path.dirname(os.path.abspath(__file__)))
ENV = dict(os.environ, GOFLAGS="-mod=mod", GOPROXY="off", GOSUMDB="off", GOTOOLCHAIN="local")
SCR = "/tmp/mutcheck"


def sh(cmd, cwd=None, env=None, timeout=3600):
    p = subprocess.run(cmd, cwd=cwd, env=env or ENV, stdout=subprocess.PIPE, stderr=subprocess.STDOUT, text=True, timeout=timeout, errors="replace")
    return p.returncode, p.stdout


def worktree(name):
    wt = os.path.join(SCR, name)
    sh(["git", "-C", "/repo", "worktree", "remove", "--force", wt])
    shutil.rmtree(wt, ignore_errors=True)
    os.makedirs(SCR, exist_ok=True)
    rc, out = sh(["git", "-C", "/repo", "worktree", "add", "--detach", wt, "HEAD"])
    if rc != 0:
        raise RuntimeError(out)
    return wt


def drop(wt):
    sh(["git", "-C", "/repo", "worktree", "remove", "--force", wt])
    shutil.rmtree(wt, ignore_errors=True)


def confirm(d):
    name = os.path.basename(d.rstrip("/"))
    res = {"id": name, "ok": False}
    wt = worktree("c-" + name)
    try:
        # same directory name as the author used (some demonstrations depend on their package path)
        dname = "demo" + (name.split("-")[-1] if name.split("-")[-1].isdigit() else "")
        try:
            dname = json.load(open(os.path.join(d, "meta.json"))).get("demo_dir", dname)
        except Exception:
            pass
        demo = os.path.join(wt, dname)
        os.makedirs(demo)
        shutil.copy(os.path.join(d, "demo_test.go"), os.path.join(demo, "demo_test.go"))
        rc, out = sh(["go", "test", "-vet=off", "-count=1", "./" + dname + "/"], cwd=wt)
        res["demo_without"] = "pass" if rc == 0 else "FAIL"
        if rc != 0:
            res["why"] = "demonstration fails on the pristine tree:\n" + out[-1500:]
            return res
        rc, out = sh(["git", "apply", os.path.abspath(os.path.join(d, "patch.diff"))], cwd=wt)
        if rc != 0:
            res["why"] = "patch does not apply: " + out
            return res
        rc, out = sh(["go", "build", "./..."], cwd=wt)
        if rc != 0:
            res["why"] = "does not build: " + out[-1500:]
            return res
        rc, out = sh(["go", "test", "-vet=off", "-count=1", "./" + dname + "/"], cwd=wt)
        res["demo_with"] = "fail" if rc != 0 else "PASS"
        if rc == 0:
            res["why"] = "demonstration passes with the change"
            return res
        shutil.rmtree(demo)
        rc, out = sh([os.path.join(ROOT, "tools", "baseline.py"), wt], cwd=wt)
        res["suite"] = out.strip().splitlines()[0] if out.strip() else ""
        if rc != 0:
            res["why"] = "pinned suite does not pass with the change:\n" + out[-1500:]
            return res
        res["ok"] = True
        return res
    finally:
        drop(wt)


def run(d, props, tier):
    name = os.path.basename(d.rstrip("/"))
    wt = worktree("r-" + name)
    out = {"id": name, "caught_by": [], "silent": [], "inconclusive": []}
    try:
        rc, o = sh(["git", "apply", os.path.abspath(os.path.join(d, "patch.diff"))], cwd=wt)
        if rc != 0:
            out["error"] = "patch does not apply: " + o
            return out
        scratch = os.path.join(SCR, "ev-" + name)
        os.makedirs(scratch, exist_ok=True)
        env = dict(ENV, VERIF_REPO=wt, VERIF_EVIDENCE_DIR=os.path.join(scratch, "evidence"), VERIF_FOUND_DIR=os.path.join(scratch, "found"), VERIF_TIER=tier)
        for p in props:
            t0 = time.time()
            rc, o = sh([os.path.join(ROOT, "check"), "run", p, "--tier", tier], cwd=ROOT, env=env, timeout=7200)
            classes = [l.strip()[7:] for l in o.splitlines() if l.strip().startswith("class: ")]
            if rc == 1:
                out["caught_by"].append({"check": p, "classes": classes, "s": round(time.time() - t0, 1)})
            elif rc == 0:
                out["silent"].append(p)
            else:
                out["inconclusive"].append({"check": p, "tail": o[-800:]})
        shutil.rmtree(scratch, ignore_errors=True)
        return out
    finally:
        drop(wt)


def main():
    args = sys.argv[1:]
    if not args:
        print(__doc__)
        return 2
    mode = args[0]
    props, tier, dirs = None, "quick", []
    i = 1
    while i < len(args):
        if args[i] == "--props":
            props = args[i + 1]
            i += 2
        elif args[i] == "--tier":
            tier = args[i + 1]
            i += 2
        else:
            dirs.append(args[i])
            i += 1
    sys.path.insert(0, ROOT)
    from checkcfg import PROPS
    for d in dirs:
        if mode == "confirm":
            r = confirm(d)
        else:
            ps = sorted(PROPS) if props in (None, "all") else props.split(",")
            if props is None:
                try:
                    ps = [json.load(open(os.path.join(d, "meta.json")))["property"]]
                except Exception:
                    pass
            r = run(d, ps, tier)
        print(json.dumps(r), flush=True)
    return 0


if __name__ == "__main__":
    sys.exit(main())
