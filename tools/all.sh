#!/bin/bash
# Runs every registered quick (or $1 = thorough) check once and prints one line per check.
cd "$(dirname "$0")/.."
tier=${1:-quick}
fail=0
for i in $(seq -w 1 20); do
  out=$(./check run C$i --tier $tier 2>&1); rc=$?
  echo "$out" | grep "^C$i $tier:" | sed "s/$/ exit=$rc/"
  if [ $rc -ne 0 ]; then fail=1; echo "$out" | grep -v "^KNOWN" | head -30; fi
done
exit $fail
