"""Per-property configuration of the driver: which test functions make up a
check, how many cases per tier, how many shard processes."""

def rapid(name, test, quick, thorough, qs=8, ts=16, **kw):
    d = {"name": name, "test": test, "rapid": True,
         "checks": {"quick": quick, "thorough": thorough},
         "shards": {"quick": qs, "thorough": ts}}
    d.update(kw)
    return d

def fuzz(name, target, seconds=120, replay_part=None):
    # replay_part: the part (and test) through which a failing case written by the fuzz target is replayed
    d = {"name": name, "fuzz": target, "tiers": ["thorough"], "fuzztime": {"thorough": seconds}}
    if replay_part:
        d["replay_part"] = replay_part
    return d

def plain(name, test, **kw):
    d = {"name": name, "test": test, "rapid": False, "shards": {"quick": 1, "thorough": 1}}
    d.update(kw)
    return d

HOOK_COMMITS = ["c93212c7541212aed27f84b998ced74192f17e2f"]

_UNDER_CONSTRUCTION = "no check registered yet: the check for this property is still being built (see DESIGN.md section 8 for the order); not a statement that the technique cannot apply"
NOT_APPLICABLE = {("C%02d" % i): _UNDER_CONSTRUCTION for i in range(1, 21)}
HOOK_COMMITS_NOTE = "fix: commits are not hooks and are not listed here"

PROPS = {
    "C01": {
        "pkg": "c01",
        "level": "exploration",
        "level_text": "Generated search with shrinking: tens of thousands (thorough: hundreds of thousands) of generated error trees per run are "
                      "transferred several times and compared node by node and byte by byte; a pass means the round-trip relation held on "
                      "everything explored, not that it holds for all compositions.",
        "level_note": "Trusts gogo protobuf marshalling and that the same test binary stands for 'a process that knows the same types'.",
        "technique": "property-based testing (rapid): round-trip oracle over generated error trees, k hops, byte-level drift comparison",
        "rule": "rapid-generated error trees (76 constructor kinds, regular strings with unique tokens, 1-12 spec nodes quick / 1-24 thorough) "
                "transferred 2-3 (thorough: 2-5) times through EncodeError/Marshal/Unmarshal/DecodeError; oracle: same shape and Error() text at "
                "every node after every hop, wire bytes identical from the second hop on and identical between first and second hop modulo barrier "
                "reportable payloads. Non-trivial = at least 3 model layers and one of {multi-cause node, message containing ': ' or a newline, "
                "prefix wrapper directly over a full-message wrapper, foreign wrapper whose prefix must be extracted}. Distinct = hash of the case JSON.",
        "assumptions": ["the receiving process links the same types (same test binary)", "gogo proto.Marshal/Unmarshal are faithful"],
        "parts": [rapid("roundtrip", "TestProp", 24000, 640000)],
    },
    "C11": {
        "pkg": "c11",
        "level": "exploration",
        "level_text": "Generated search with shrinking: every public accessor (hints, details, links, telemetry keys, domain, tags, flags, "
                      "HTTP/gRPC codes, OS predicates, per-layer safe details, reportable stack frames, one-line source) is snapshotted before "
                      "the first hop and compared after each of 1-3 (thorough 1-5) hops on tens of thousands of generated trees over hostile "
                      "and regular strings; a second generator places an errno in the tree and lets the first hop land on a foreign platform.",
        "level_note": "Same-binary receiver stands for a knowing process; the foreign platform is simulated by rewriting ErrnoPayload.arch on the wire; "
                      "barrier and secondary-error layers are exempt from the safe-detail comparison as the property states.",
        "technique": "property-based testing (rapid): round-trip oracle, full accessor snapshot before/after k hops, foreign-platform wire mutation",
        "rule": "rapid-generated error trees (hostile and regular alphabets) x 1-3 hops (thorough 1-5); oracle: accessor snapshot equal after every hop. "
                "Part foreign-platform: an errno sentinel is placed at a random leaf and the first hop rewrites ErrnoPayload.arch. "
                "Non-trivial = at least 3 different annotation kinds and at least one stack-capturing kind in the tree. Distinct = hash of the case JSON.",
        "assumptions": ["the receiving process links the same types (same test binary)", "tag values are strings (the API under test captures only their string form)"],
        "parts": [rapid("annotations", "TestProp", 16000, 320000), rapid("foreign-platform", "TestForeign", 8000, 160000)],
    },
    "C04": {
        "pkg": "c04",
        "level": "exploration",
        "level_text": "Generated search with shrinking: generated error trees are sent through one or two intermediaries that do not know a drawn subset "
                      "of the type families present (none, some, all), simulated twice and independently (wire renaming of family names and Any type URLs; "
                      "true registry restriction through the build-tag hook); text, type names, marks and safe details are compared at the intermediary, "
                      "the re-encoding is compared byte by byte with what was received, and the final knowing receiver is compared with a direct transfer.",
        "level_note": "Families named by the known findings F14/F15 are never made unknown (excluded by construction, counted); layers the intermediary "
                      "does know follow C01's relation (barrier reportable payload exempt).",
        "technique": "property-based testing (rapid): round-trip / differential oracle through simulated unknowing processes, byte-exact re-encoding comparison",
        "rule": "rapid-generated error trees over regular strings x subset of the type families on the wire made unknown (all / random bitmask / none) x 1-2 "
                "intermediaries, each simulated by wire renaming and by registry restriction. Non-trivial = the unknown set contains at least one family of "
                "the library itself (a type with a custom encoder). Distinct = hash of the case JSON.",
        "assumptions": ["an unknowing process is a process whose registries lack the type keys (hook) or that sees other names (renaming); both must agree"],
        "parts": [rapid("passthrough", "TestProp", 6000, 120000), rapid("wire-variations", "TestVariations", 6000, 120000)],
    },
    "C08": {
        "pkg": "c08",
        "level": "exploration",
        "level_text": "Generated search with shrinking against an independent reference model: for every generated tree e and ~40 references (every "
                      "visible layer of e, 17 sentinels, an independent tree, three near-equal perturbed copies of sub-trees of e) Is must not panic and "
                      "must agree with a Spec-level model of the documented equivalence (identity, own Is method, equal message + full (type, extension) "
                      "chain, explicit marks); reflexivity, monotonicity under a drawn wrapper, IsAny = disjunction and nil handling are checked on the same case.",
        "level_note": "The model is written from the README / Is docstring over the generator's Spec (not over library objects); it is itself cross-checked "
                      "by C02, C13 and C14 which do not use it. Type identity in the model is the %T name plus extension.",
        "technique": "property-based testing (rapid): independent reference model of mark equivalence, systematic near-equal perturbations, metamorphic monotonicity",
        "rule": "rapid-generated trees biased towards leaf-or-wrapper types (UOpt, net.DNSError), non-comparable values, comparable wrappers around them and "
                "Mark nodes; references = layers of e, sentinel pool, independent tree, 3 perturbed copies (one message / type / domain / extra or missing layer / "
                "cause added or removed). Non-trivial = some perturbed (near-equal) reference does not match, or a non-comparable value is involved. "
                "Distinct = hash of the case JSON.",
        "assumptions": ["%T type name + extension identifies a type mark for locally built errors"],
        "parts": [rapid("is-model", "TestProp", 12000, 120000)],
    },
    "C02": {
        "pkg": "c02",
        "level": "exploration",
        "level_text": "Generated search with shrinking: for every generated tree e and ~40 references (layers of e, sentinel pool, independent tree, "
                      "near-equal perturbed copies) Is(e, r) is evaluated locally and again, always at a knowing process, after each of 1-3 hops of e, of r, and "
                      "of both, where every hop is drawn from {knowing process, process that knows none of e's families, process that knows a random subset}. Also evaluated inside an unknowing intermediary (except where barriers, status errors or withMark are or have been unknown there: known findings F14/F15, explicit marks), with Mark references that are bare leaves and may have the empty message, and over structural extremes (chains of 13-70 layers, 13-65 branches).",
        "level_note": "Unknowing processes are simulated by registry restriction (build-tag hook). The statement's exemption (local match that exists only through "
                      "an identity-comparing Is method may vanish once r is transferred) is decided by the independent Is model of C08 evaluated without Is methods. "
                      "Is is not evaluated *at* an unknowing process (DESIGN.md 6.2).",
        "technique": "property-based testing (rapid): round-trip oracle on the Is relation, hop sequences mixing knowing and unknowing processes, near-equal reference perturbation",
        "rule": "rapid-generated trees (boosted: sentinels, Mark, registered Is-method leaf, domains) x references (layers of e, 17 sentinels, independent tree, 3 perturbed "
                "copies) x hop sequences of length 1-3 (thorough 1-4) over {knowing, all families unknown, random subset unknown}. Non-trivial = at least one reference "
                "matched before transfer through a non-identity route and at least one near-equal reference did not match. Distinct = hash of the case JSON.",
        "assumptions": ["registry restriction through the verif hook is a faithful model of a process that lacks those types"],
        "parts": [rapid("is-transfer", "TestProp", 6000, 48000)],
    },
    "C13": {
        "pkg": "c13",
        "level": "exploration",
        "level_text": "Generated search with shrinking: trees are constructed around a multi-cause node (library Join, stdlib Join, two-%w Errorf, unregistered "
                      "and registered user multi types; nil arguments to Join; nested multi nodes; branches that are wrapped chains) and checked against: the tree "
                      "model for Is/IsAny (self or some branch), a reference As (first match in branch order, same assigned value), Unwrap/UnwrapOnce/UnwrapAll leaf "
                      "behaviour, Join's argument/nil/text rules, one %+v entry per layer with every branch's text, and shape/text equality after 1-2 hops to knowing "
                      "and unknowing receivers. Multi-cause kinds include the sub-package Join and user types with an Is method or a Cause() method (local checks only); %+v must show every branch at every receiver.",
        "level_note": "The self-match of a multi node is taken from the C08 model only; unknowing receivers never include the families of the C04 known findings (F14/F15).",
        "technique": "property-based testing (rapid): constructed multi-cause trees, reference model for Is, differential reference As, round-trip shape oracle",
        "rule": "rapid-constructed trees: a multi-cause node of a drawn kind with 1-3 generated branches under 0-3 drawn wrappers; receiver drawn from {knowing, all "
                "families unknown, only the multi-cause families unknown}. Non-trivial = at least one multi-cause node and at least 4 visible layers. Part join-nils "
                "enumerates Join/JoinWithDepth with 0-6 nil arguments exhaustively. Distinct = hash of the case JSON.",
        "assumptions": ["the C08 mark model for the self-match of a multi-cause node"],
        "parts": [rapid("multi-tree", "TestProp", 6000, 16000), plain("join-nils", "TestJoinNils")],
    },
    "C14": {
        "pkg": "c14",
        "level": "exploration",
        "level_text": "Generated differential testing with shrinking: on every generated tree (library, stdlib, pkg/errors, OS/net and user types mixed) the "
                      "library's Is/As/Unwrap/Cause/UnwrapAll are compared with the standard library's errors.Is/As/Unwrap and pkg/errors.Cause, over a reference pool "
                      "and 19 As target types (pointer, value, non-comparable value, interface).",
        "level_note": "The standard library cannot traverse Cause-only wrappers, so the direct comparison of As and of the Unwrap chain is made on trees without them; "
                      "on the others the reference is the stdlib As algorithm extended with Cause() (the extension the library documents). A panic of the standard "
                      "library itself (non-comparable values) is not held against the library here (C08 covers it).",
        "technique": "property-based testing (rapid): differential oracle against errors.Is/As/Unwrap (stdlib) and pkg/errors.Cause",
        "rule": "rapid-generated trees (boosted: Cause-only and Unwrap-only user wrappers, pkg/errors wrappers, OS/net wrappers, sentinels) plus an independent tree; "
                "references = all nodes of both trees and the sentinel pool. Non-trivial = at least 3 visible layers and at least one reference for which the "
                "standard errors.Is holds. Distinct = hash of the case JSON.",
        "assumptions": ["Go 1.23 standard library semantics of errors.Is/As/Unwrap"],
        "parts": [rapid("dropin", "TestProp", 24000, 480000)],
    },
    "C20": {
        "pkg": "c20",
        "level": "exploration",
        "level_text": "Generated search with shrinking over real RPCs: every generated tree is returned by the handler of an in-memory gRPC Echoer service behind "
                      "UnaryServerInterceptor and received through UnaryClientInterceptor; the received error is compared (text, %+v, full accessor snapshot, Is "
                      "against all nodes of the original and the sentinel pool) with a direct EncodeError/DecodeError transfer; a second client without interceptor "
                      "observes the raw status code; status errors and nil must pass through unchanged.",
        "level_note": "gRPC code OK attached to an error is outside the domain (a status with code OK is 'no error' by gRPC's definition); memlistener stands for the network.",
        "technique": "property-based testing (rapid): differential oracle, gRPC interceptor path vs direct encode/decode",
        "rule": "rapid-generated trees (boosted: WrapWithGrpcCode, grpc and gogo status leaves) sent through a real in-process gRPC call. Non-trivial = the handler's error "
                "carries an attached code, or already is a status error, or has at least 3 spec nodes. Part nil-passthrough: handler returns nil (5 calls). "
                "Distinct = hash of the case JSON.",
        "assumptions": ["in-memory listener instead of TCP", "grpc-go v1.56.3 as pinned by the repository"],
        "parts": [rapid("interceptors", "TestProp", 8000, 120000), plain("nil-passthrough", "TestNil")],
    },
    "C03": {
        "pkg": "c03",
        "level": "exploration",
        "level_text": "Generated taint search with shrinking: every generated string carries a unique token and is classified by the channel it entered through; "
                      "after building the tree, after 0-2 hops, at a process that knows none / a random subset of the types (two independent simulations) and after "
                      "such an intermediary, every output the library declares PII-free (redacted %v / %+v, all safe details, every reportable payload on the wire "
                      "including nested ones, the whole Sentry event as JSON and every extra) is searched for tokens that entered only through unsafe channels. "
                      "Thorough adds coverage-guided native fuzzing of the same property (rapid.MakeFuzz).",
        "level_note": "The channel table (what is unsafe / declared safe / neutral) is taken from the property statement and the README's list; parts a user type "
                      "itself declares safe and type-mark extensions of Mark references are neutral.",
        "technique": "property-based testing (rapid) with taint tokens over hostile strings; thorough: Go native fuzzing through rapid.MakeFuzz",
        "rule": "rapid-generated trees over the hostile alphabet (marker runes, newlines anywhere, empty, NUL, invalid UTF-8, printf verbs; 1 in 4 cases regular) x "
                "{local, 1-2 hops} x {no / all-unknown / partially-unknown process}. Non-trivial = at least one unsafe-only token and one declared-safe token in the "
                "tree and a hostile atom inside an unsafe string (or the regular alphabet). Distinct = hash of the case JSON.",
        "assumptions": ["a leak is detected by token search; tokens are ASCII and survive escaping, quoting and JSON encoding (JSON is decoded before the search)"],
        "parts": [rapid("taint", "TestProp", 12000, 200000), fuzz("native-fuzz", "FuzzTaint", replay_part="taint")],
    },
    "C06": {
        "pkg": "c06",
        "level": "exploration",
        "level_text": "Generated search with shrinking: every generated tree (local, decoded, or decoded at a process that knows none of its types) is rendered "
                      "through redact with %v, %s, %+v (marker grammar: balanced, never nested, balanced within every line; also after Redact()) and with %q, %x, %X, %d "
                      "(must be refused as ‹%!verb(...), never rendered); for trees over the regular alphabet the marker-stripped rendering must equal the plain "
                      "fmt rendering through Formattable. Thorough adds coverage-guided native fuzzing of the same property.",
        "level_note": "Congruence is demanded for the regular alphabet only (the quantifier of the property; observed: redact replaces invalid UTF-8, which is outside it).",
        "technique": "property-based testing (rapid): grammar invariant over hostile strings + differential redact-vs-fmt congruence; thorough: Go native fuzzing",
        "rule": "rapid-generated trees over hostile strings (2 of 3) or regular strings (1 of 3), boosted with foreign wrappers/leaves with and without Format methods, "
                "x variant {local, decoded, opaque}. Non-trivial = a foreign (non-SafeFormatter) layer between two library layers, or a hostile atom at a string "
                "boundary. Distinct = hash of the case JSON.",
        "assumptions": ["marker runes are U+2039/U+203A as defined by cockroachdb/redact"],
        "parts": [rapid("grammar", "TestProp", 24000, 400000), fuzz("native-fuzz", "FuzzGrammar", replay_part="grammar")],
    },
    "C12": {
        "pkg": "c12",
        "level": "exploration",
        "level_text": "Generated taint search with shrinking (the dual of C03): every string that enters through a channel the library declares PII-free (constant "
                      "messages and format literals, Safe() arguments, telemetry keys, domains, issue links, tag keys) carries a unique token which must be found in the "
                      "Sentry event/extras or GetAllSafeDetails, locally and after 1-2 hops; trees are constructed with a sub-tree behind a barrier or in secondary "
                      "position; type names of all layers and the innermost frame of every stack must be present as well. Also: error-typed arguments of NewAssertionErrorWithWrappedErrf, a secondary error mark-equal to the primary one with other safe annotations, and the safe details a foreign type with its own stack trace reports for itself (visible chain).",
        "level_note": "Only the library's own declared-safe channels are claimed; strings inside a Mark reference are not (only its mark is kept).",
        "technique": "property-based testing (rapid) with taint tokens: retention oracle over the Sentry report and safe details",
        "rule": "rapid-constructed trees: a generated sub-tree (boosted safe-carrying kinds) placed behind a drawn barrier kind / as secondary error / visible, under 0-4 "
                "drawn wrappers; regular or hostile alphabet; 0-2 hops. Non-trivial = a declared-safe token sits behind a barrier or in a secondary error and the "
                "tree has at least 2 declared-safe tokens. Distinct = hash of the case JSON.",
        "assumptions": ["retention is detected by token search in the JSON-decoded Sentry event, the extras and GetAllSafeDetails"],
        "parts": [rapid("retention", "TestProp", 8000, 160000)],
    },
    "C05": {
        "pkg": "c05",
        "level": "fault_enumeration",
        "level_text": "Exhaustive fault enumeration: for every type key that has a decoder in the live registries (read through the build-tag hook, so decoders "
                      "added later are swept automatically) the full product of position {leaf, wrapper, multi-cause leaf} x carrier {top, middle of a chain, nested "
                      "in a barrier payload} x payload fault {absent, every payload type the library emits filled and empty, unregistered Any, registered URL with "
                      "garbage bytes} x detail lists {0, 1, 4} x message type {0, 1, 7} is decoded from real bytes and then used in every way (all verbs through fmt, "
                      "Formattable and redact, all accessors, safe details, report, re-encode, re-decode, Is, UnwrapAll) under recover, scanning for panics swallowed "
                      "by fmt. A rapid part applies 1-4 random mutations (swap/drop/empty/garble payloads, truncate/extend details, retarget families, change message "
                      "types) to valid encodings of generated trees over hostile strings. Thorough adds native fuzzing of raw wire bytes. The mutation part also rewrites printed stacks over their grammar, and every decoded error is exercised with Is/IsAny against a transferred copy of each of its layers.",
        "level_note": "Nested EncodedError payloads are kept structurally complete (the property's precondition applies to nested errors too), so the 'empty "
                      "EncodedError' payload is not part of the grid.",
        "technique": "exhaustive fault-grid enumeration over the live decoder registries + property-based mutation of valid encodings (rapid); thorough: Go native fuzzing of wire bytes",
        "rule": "fault grid enumerated completely (sharded by key); non-trivial = the fault reaches a registered decoder (key registered for that position); distinct = "
                "hash of the grid point. Part mutations: rapid-generated trees over hostile strings, encoded, then 1-4 drawn mutations; non-trivial = at least 2 "
                "spec nodes.",
        "assumptions": ["wire messages are structurally complete (every nested error has a leaf or a wrapper set)"],
        "parts": [plain("fault-grid", "TestGrid", shards={"quick": 16, "thorough": 16}), rapid("mutations", "TestMutations", 8000, 200000), plain("unregister", "TestUnregister"), fuzz("native-fuzz", "FuzzDecode", 180, replay_part="fuzz"), plain("fuzz", "TestFuzzReplay", tiers=[])],
        "timeout": {"quick": 1200, "thorough": 7200},
    },
    "C10": {
        "pkg": "c10",
        "level": "exploration",
        "level_text": "Generated search with shrinking against an independent compositional model: the real chain and the model's layers are walked in lock step "
                      "(same length, same Go type, Error() of every layer equal to the model text: 'prefix: cause', cause alone for an empty prefix, fmt-formatted "
                      "text with %w rendered as the cause's text, hidden text for Handled); every wrapper keeps the root cause and every Is/As match of what it "
                      "wraps; annotation-only wrappers keep Error(). The finite part is enumerated exhaustively: every exported wrapper constructor of the root "
                      "package and the sub-packages x nil, every exported leaf constructor -> non-nil, with the tables checked for completeness against a go/parser "
                      "scan of the repository.",
        "level_note": "The model (harness/gen/model.go) is written from the README's composition table and the doc comments; it is the largest trusted component "
                      "and is cross-checked by the round-trip checks that do not use it.",
        "technique": "property-based testing (rapid): independent compositional model of Error() and layer types, metamorphic Is/As preservation; exhaustive nil grid",
        "rule": "rapid-generated trees over regular strings (76 kinds); non-trivial = at least 3 message-bearing layers of at least two different roles (prefix / "
                "full-message / leaf). Part nil-grid: all 71 wrapper constructors x nil and 20 leaf constructors, exhaustive, completeness-checked. "
                "Distinct = hash of the case JSON.",
        "assumptions": ["the model's reading of the documentation (Appendix A of DESIGN.md)"],
        "parts": [rapid("compose", "TestProp", 16000, 160000), plain("nil-grid", "TestNilGrid")],
    },
    "C16": {
        "pkg": "c16",
        "level": "exploration",
        "level_text": "Exhaustive grid plus generated call paths, with the Go runtime as the independent oracle: each of the 35 stack-capturing and 6 domain-"
                      "computing exported functions (55 table entries with the %w, empty-message and error-argument variants; completeness checked against a go/parser "
                      "scan of the root package, errutil, withstack and domains) is "
                      "called, for depth 0..3, at the end of a call path through helper functions of two other packages (never-inlined functions, a function "
                      "inlined into its caller, value and pointer methods, generic functions and methods); on the same source line runtime.Callers+CallersFrames records the logical stack. The "
                      "innermost frame of the captured stack (function, file, line), GetOneLineSource and the package domain must denote the runtime's d-th frame; "
                      "the whole reportable stack trace must have one frame per recorded program counter, oldest first, each with the function, file and line the "
                      "runtime resolves that counter to. "
                      "Call paths are 3-6 helpers deep, and in a quarter of the cases 20-70 (the library records at most 32 frames). Third part (innermost-source): "
                      "over generated single-cause chains mixing stack-capturing layers of the library and of pkg/errors, layers without frames and wrappers of "
                      "every kind (boosted: foreign wrappers that expose their cause only through Cause()), locally and after a hop, GetOneLineSource must give "
                      "the answer it gives for the innermost frame-carrying layer of the model's chain taken alone, and file:line must be the first program "
                      "counter that layer recorded as resolved by the Go runtime; nothing for chains without recorded frames.",
        "level_note": "The grid (every function x depth x every helper as innermost caller) is exhaustive; longer call paths are drawn by rapid. Frame identity is "
                      "function name + file + line as reported by the runtime.",
        "technique": "exhaustive grid + property-based call-path generation (rapid); differential oracle: runtime.Callers/CallersFrames at the same source line",
        "rule": "grid: 55 table entries x depth 0..3 (where a depth exists) x 12 innermost helpers, exhaustive; call-paths: rapid draws function, depth and a path of 3-6 "
                "(a quarter: 20-70) helpers over two packages. Non-trivial = depth > 0 or a non-empty helper path; innermost-source: at least two layers with a "
                "stack. Distinct = hash of the case JSON.",
        "assumptions": ["runtime.CallersFrames is the reference for 'the d-th caller' (inlined functions count as frames)"],
        "parts": [plain("grid", "TestGrid"), rapid("call-paths", "TestProp", 16000, 320000), rapid("innermost-source", "TestSource", 8000, 160000)],
    },
    "C17": {
        "pkg": "c17",
        "level": "exploration",
        "level_text": "Exhaustive enumeration of configurations plus generated histories: a logical leaf type and a logical wrapper type exist under the names foo "
                      "(v1), bar (v2), qux (vB, concurrent rename), baz (v3: chain of two renames) and zed (v4: chain of three renames) and are unknown at v0; "
                      "every permutation of each version's registration list is its own code version (12 versions), each a registry image built through the "
                      "library's public registration API and installed through the build-tag hook. All assignments of versions to sender / second sender / receiver "
                      "and to sender / intermediary / receiver are enumerated; rapid draws longer histories (two errors from drawn senders, up to 6 hops through "
                      "drawn processes). At every process: wire family name = the original name, decoded Go type = the receiver's own name (opaque at v0, text "
                      "kept), Is recognises an equal local instance and rejects another message, the two errors are Is-equal in both directions (scenario 5). "
                      "All registration orders must give identical bytes; registering a target twice must panic. Third part: the rename the library declares itself "
                      "(os.PathError of Go < 1.16 -> io/fs.PathError): in generated trees containing a path error, that layer is sent under the family name "
                      "os/*os.PathError, a message as the old peer sends it (old name throughout) is decoded to *fs.PathError with the same shape and text, and Is "
                      "recognises the layer in both directions.",
        "level_note": "Code versions are registry images inside one test binary (the Go types of all names are linked into it; a version 'knows' a name iff its "
                      "image has the decoder / migration).",
        "technique": "exhaustive configuration enumeration + property-based history generation (rapid) over registry images; invariants checked at every process of the history",
        "rule": "exhaustive: 11 senders x 11 second senders x 12 receivers, and 11 senders x 12 intermediaries x 12 receivers; histories: rapid draws two senders and "
                "1-6 hop steps (hop A, hop B, hop both) through drawn versions. Non-trivial = history of at least 3 steps. Distinct = hash of the history.",
        "assumptions": ["a registry image faithfully stands for a code version"],
        "parts": [plain("exhaustive", "TestExhaustive"), rapid("histories", "TestProp", 8000, 160000), rapid("builtin-rename", "TestBuiltinRename", 2000, 40000), plain("keys-and-moves", "TestKeysAndMoves")],
    },
    "C09": {
        "pkg": "c09",
        "level": "exploration",
        "level_text": "Three parts. verbs: generated trees (local and decoded) x verb in {v,s,q,x,X,d,t,e,c,U,b,o,f,g} x subsets of the flags {-,#,space,0} x width "
                      "0-60 x precision 0-40, through Formattable and directly when the outermost layer is a library type, compared with what fmt prints for the "
                      "Error() string (resp. fmt's %!verb(type) notation, resp. a Go-syntax dump for %#v). verbose-structure: %+v is parsed and compared with the "
                      "tree: starts with Error(), exactly one numbered entry per visible layer in display order, 'Error types' line naming every layer's Go type in "
                      "that order, indentation of multi-cause branches growing with depth, every library wrapper's own detail present in its entry. golden-corpus: "
                      "the repository's curated leaf x wrapper corpus (13 files, 484 run entries, Sentry renderings and via-network variants included) is "
                      "re-rendered by the repository's own test code through go test -overlay and compared with its vetted goldens.",
        "level_note": "The '+' flag is exercised only as plain %+v; %p/%T never reach Format; with multi-line messages only the first line of the header is demanded "
                      "(as the vetted goldens show). The corpus comparison normalises nothing but the repository's own fmtClean plus toolchain closure naming.",
        "technique": "property-based testing (rapid): differential oracle fmt-on-Error()-string, structural %+v parser against the tree; differential replay of the repository's golden corpus",
        "rule": "verbs: non-trivial = a flag/width/precision combination on a chain of at least 3 layers; verbose-structure: non-trivial = at least 5 entries, or at "
                "least 3 with a multi-cause node; golden-corpus: every corpus file, exhaustive. Distinct = hash of the case JSON.",
        "assumptions": ["Go 1.23 fmt semantics for strings", "the vetted golden files of the repository are correct"],
        "parts": [rapid("verbs", "TestVerbs", 24000, 480000), rapid("verbose-structure", "TestVerbose", 8000, 160000), plain("golden-corpus", "TestCorpus"), plain("nil-formattable", "TestNilFormattable")],
    },
    "C19": {
        "pkg": "c19",
        "level": "exploration",
        "level_text": "Generated search with shrinking against an independent model: chains of 0-8 (thorough 0-14) annotation layers (hints, details, issue links, "
                      "telemetry keys, tags, assertion markers, a user type implementing ErrorHinter/ErrorDetailer, domains, codes; 1 in 8 another wrapper, secondary "
                      "error or Mark reference carrying hints that must not contribute) over a bottom that is an unimplemented error, an assertion failure, a barrier "
                      "hiding hints, or a plain leaf; all strings come from a pool of four texts plus the empty string, which forces repeats and empties. "
                      "GetAllHints/GetAllDetails/FlattenHints/FlattenDetails/GetAllIssueLinks/GetContextTags/GetTelemetryKeys are compared with the model.",
        "level_note": "Standard hints are composed from the library's exported constants (assert.AssertionErrorHint, issuelink.UnimplementedErrorHint, stdstrings.IssueReferral).",
        "technique": "property-based testing (rapid): independent model of hint/detail/link/tag/key aggregation over constructed annotation chains with a small string pool",
        "rule": "rapid-constructed annotation chains over a 5-string pool. Non-trivial = at least one repeated hint or one empty hint/detail in the chain. "
                "Distinct = hash of the case JSON.",
        "assumptions": ["logtags replaces the value of a tag whose key is added twice"],
        "parts": [rapid("aggregation", "TestProp", 40000, 800000)],
    },
    "C15": {
        "pkg": "c15",
        "level": "exploration",
        "level_text": "Generated search with shrinking: for every generated tree (local or decoded, where stacks are re-parsed from text; with many, some or no "
                      "stacks; multi-cause included) the Sentry event is compared with an independent walk of the tree: message = [file:line: ] + the redacted "
                      "%+v + '-- report composition:' + exactly one line per layer (innermost first, each naming its layer's type); exceptions = the layers "
                      "that carry a reportable stack, outermost first, frames deep-equal to GetReportableStackTrace of that layer, exactly one stack-less "
                      "exception when none; module = GetDomain; the 'error types' extra has one line '<type> (<family or *>::<extension>)' per layer, innermost first. The expected domain, file:line prefix, type and extension of every line and the number of frames per exception come from the case description and the program counters of the locally built error, not from the library's accessors.",
        "level_note": "The walk order of the report (node, single cause, then branches) is reproduced by an independent pre-order walk of the harness; only the "
                      "structure is checked here, PII-safety and retention are C03/C12.",
        "technique": "property-based testing (rapid): structural oracle relating BuildSentryReport to an independent tree walk and per-layer accessors",
        "rule": "rapid-generated trees (one quarter without any stack-capturing kind, one quarter boosted with stacks and domains; multi-cause weight 2), regular "
                "or hostile strings, local or decoded. Non-trivial = at least 3 layers and (at least 2 stacks, or none, or a multi-cause node). Part nil-report: "
                "BuildSentryReport(nil). Distinct = hash of the case JSON.",
        "assumptions": ["sentry-go v0.27.0 event structure"],
        "parts": [rapid("report", "TestProp", 12000, 240000), plain("nil-report", "TestNilReport")],
    },
    "C07": {
        "pkg": "c07",
        "level": "exploration",
        "level_text": "Generated search with shrinking over constructed trees: a generated sub-tree H carrying hints, details, domains, assertion flags, HTTP/gRPC "
                      "codes, telemetry keys, issue links, tags and sentinels is hidden by a drawn mechanism (each of the 7 barrier constructors, WithSecondaryError, "
                      "CombineErrors, an error-typed Wrapf argument, a Mark reference) below 0-3 drawn wrappers. Oracles: (i) no freshly built node of H is "
                      "reachable through Unwrap/Cause/UnwrapAll/multi-cause traversal; (ii) metamorphic non-interference: replacing every hidden sub-tree by "
                      "stdlib errors.New(H.Error()) changes neither Error(), nor any accessor, nor any Is/IsAny/HasType/As/If answer against fresh copies of "
                      "H's nodes, the sentinel pool and 19 As targets, locally and after 1-2 hops; for Mark, dropping the Mark layer changes no accessor that "
                      "is not decided by Is; (iii) Handled* text as documented; (iv) every token of H's text is visible in %+v. Further oracles: Is over copies of all hidden nodes and the sentinels equals the model's Is over the visible layers; %+v shows the text of every hidden node at every hop; every safe detail of a hidden chain is among the safe details of the layer that hides it, a barrier's details render every hidden layer, and a hiding layer held as an opaque value by a process that does not know it still reports the origin's details.",
        "level_note": "Mark references are kept (not replaced) when Is is compared, because the mark is exactly what Mark contributes (C08 models it); stack and "
                      "safe-detail layers of the barrier itself are excluded from the snapshot comparison.",
        "technique": "property-based testing (rapid): metamorphic oracle (replace hidden sub-tree by a plain error with the same text) + identity-based reachability check",
        "rule": "rapid-constructed trees with at least one hidden sub-tree (2-6 spec nodes quick, 2-12 thorough, boosted annotation/sentinel kinds); 0-2 hops. "
                "Non-trivial = a hidden sub-tree of at least 2 layers carrying at least one annotation or sentinel. Distinct = hash of the case JSON.",
        "assumptions": ["stdlib errors.New(text) is an error that contributes nothing but its text"],
        "parts": [rapid("hidden", "TestProp", 4000, 80000)],
    },
    "C18": {
        "pkg": "c18",
        "race": True,
        "level": "exploration",
        "level_text": "Generated search under the Go race detector: for every generated tree (local or decoded) two identical errors are built; one, still "
                      "untouched (so that a lazily filled cache would first be written concurrently), is shared by 8 goroutines released together, each running "
                      "every read-only operation of the property (all verbs through fmt and Formattable, redactable and redacted renderings, encode+marshal, every "
                      "accessor, safe details, report building, Is/IsAny against the sentinel pool, As for 21 targets, hint/detail collection), for 2 rounds; in half of the cases the outermost layer is drawn uniformly from the kinds whose observers derive their result from stored data on every call (tags, barriers, secondary errors, stacks, safe details, telemetry, issue links, Mark, domains); every "
                      "goroutine's result must equal the result of running alone on the twin error, and a final solo run on the shared error must as well. The "
                      "race detector (halt_on_error) turns any unsynchronised conflicting access that occurs into a failure, independent of the timing of the run. "
                      "Second part (history independence, sequential): a generated sequence of trees is handled by one process - the first tree is observed on a "
                      "fresh build, then 1-8 other trees (independent ones and near-equal variants of the first) are observed, then a fresh build of the first "
                      "again: both observations must be equal, i.e. no observer keeps state keyed more coarsely than the value it was computed from.",
        "level_note": "The harness does not own the scheduler: a defect that needs a particular interleaving of properly synchronised operations would be found only by "
                      "luck; the detector finds unsynchronised accesses that actually occur in the run, which covers lazy caches, memoisation and shared scratch buffers.",
        "technique": "property-based testing (rapid) under the Go race detector: concurrent-vs-solo result equality on a fresh shared error, many goroutines and rounds; "
                     "generated operation histories (observe A, observe others, observe A again) with an equality invariant",
        "rule": "rapid-generated trees (boosted: barriers, tags, secondary errors, Mark, Join, safe details, stacks, domains), local or decoded; 8 goroutines x 2 "
                "rounds per tree. Non-trivial = at least 3 spec nodes; for the history part = at least 2 other errors handled in between. Distinct = hash of the case JSON.",
        "assumptions": ["Go race detector semantics (happens-before based, reports races that occur)"],
        "parts": [rapid("concurrent-readers", "TestProp", 480, 4800), rapid("history-independence", "TestHistory", 640, 6400)],
        "timeout": {"quick": 900, "thorough": 7200},
    },
}
