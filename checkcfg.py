"""Per-property configuration of the driver: which test functions make up a
check, how many cases per tier, how many shard processes."""

def rapid(name, test, quick, thorough, qs=8, ts=16, **kw):
    d = {"name": name, "test": test, "rapid": True,
         "checks": {"quick": quick, "thorough": thorough},
         "shards": {"quick": qs, "thorough": ts}}
    d.update(kw)
    return d

def plain(name, test, **kw):
    d = {"name": name, "test": test, "rapid": False, "shards": {"quick": 1, "thorough": 1}}
    d.update(kw)
    return d

HOOK_COMMITS = ["c93212c7541212aed27f84b998ced74192f17e2f"]

_UNDER_CONSTRUCTION = "no check registered yet: the check for this property is still being built (see DESIGN.md section 8 for the order); not a statement that the technique cannot apply"
NOT_APPLICABLE = {("C%02d" % i): _UNDER_CONSTRUCTION for i in range(1, 21)}

PROPS = {
    "C01": {
        "pkg": "c01",
        "level": "exploration",
        "level_text": "Generated search with shrinking: tens of thousands (thorough: hundreds of thousands) of generated error trees per run are "
                      "transferred several times and compared node by node and byte by byte; a pass means the round-trip relation held on "
                      "everything explored, not that it holds for all compositions.",
        "level_note": "Trusts gogo protobuf marshalling and that the same test binary stands for 'a process that knows the same types'.",
        "technique": "property-based testing (rapid): round-trip oracle over generated error trees, k hops, byte-level drift comparison",
        "rule": "rapid-generated error trees (76 constructor kinds, regular strings with unique tokens, 1-12 spec nodes quick / 1-24 thorough) "
                "transferred 2-3 (thorough: 2-5) times through EncodeError/Marshal/Unmarshal/DecodeError; oracle: same shape and Error() text at "
                "every node after every hop, wire bytes identical from the second hop on and identical between first and second hop modulo barrier "
                "reportable payloads. Non-trivial = at least 3 model layers and one of {multi-cause node, message containing ': ' or a newline, "
                "prefix wrapper directly over a full-message wrapper, foreign wrapper whose prefix must be extracted}. Distinct = hash of the case JSON.",
        "assumptions": ["the receiving process links the same types (same test binary)", "gogo proto.Marshal/Unmarshal are faithful"],
        "parts": [rapid("roundtrip", "TestProp", 24000, 640000)],
    },
}
