// Package pbt is the common runner of all property checks: it turns a
// (generator, oracle) pair into a rapid property, keeps the evidence
// counters, reduces failing cases at the Spec level, writes replay
// files and replays them without the generator.
package pbt

import (
	"encoding/json"
	"hash/fnv"
	"os"

	"verif/gen"
)

// Case is one generated case: pure data, JSON-serialisable. It is
// the replay file, the evidence sample and the unit of distinctness.
type Case struct {
	Spec *gen.Spec           `json:"spec,omitempty"`
	Aux  []*gen.Spec         `json:"aux,omitempty"` // references, second trees
	N    map[string]int      `json:"n,omitempty"`   // numeric parameters
	S    map[string]string   `json:"s,omitempty"`   // string parameters
	L    map[string][]string `json:"l,omitempty"`   // list parameters
}

func (c *Case) JSON() []byte {
	b, err := json.Marshal(c)
	if err != nil {
		panic(err)
	}
	return b
}

func (c *Case) Hash() uint64 {
	h := fnv.New64a()
	h.Write(c.JSON())
	return h.Sum64()
}

func (c *Case) Clone() *Case {
	var d Case
	if err := json.Unmarshal(c.JSON(), &d); err != nil {
		panic(err)
	}
	return &d
}

// Int returns a numeric parameter (0 when absent).
func (c *Case) Int(k string) int { return c.N[k] }

func (c *Case) SetInt(k string, v int) {
	if c.N == nil {
		c.N = map[string]int{}
	}
	c.N[k] = v
}

func (c *Case) SetStr(k, v string) {
	if c.S == nil {
		c.S = map[string]string{}
	}
	c.S[k] = v
}

func (c *Case) SetList(k string, v []string) {
	if c.L == nil {
		c.L = map[string][]string{}
	}
	c.L[k] = v
}

// LoadCase reads a replay file.
func LoadCase(path string) (*Case, error) {
	b, err := os.ReadFile(path)
	if err != nil {
		return nil, err
	}
	var f struct {
		Case *Case `json:"case"`
	}
	if err := json.Unmarshal(b, &f); err != nil {
		return nil, err
	}
	if f.Case != nil {
		return f.Case, nil
	}
	var c Case
	if err := json.Unmarshal(b, &c); err != nil {
		return nil, err
	}
	return &c, nil
}

// Failure is a violation of the property on one case.
type Failure struct {
	// Sig is the failure class: short, deterministic, free of
	// addresses and of generated strings. It is the message given to
	// rapid (so that shrinking stays on the same failure), the thing
	// compared during Spec-level reduction and the signature matched
	// against the known-findings file.
	Sig string `json:"sig"`
	// Msg is the human-readable detail.
	Msg string `json:"msg"`
}
