package pbt

import (
	"unicode/utf8"

	"verif/gen"
)

// Reduce is the second-stage, Spec-level shrinker: it applies
// structure-aware simplifications to the failing case for as long as
// the same failure class reproduces.
func Reduce(p *Prop, c *Case, sig string) *Case {
	budget := 3000
	fails := func(x *Case) bool {
		if budget <= 0 || (p.Valid != nil && !p.Valid(x)) {
			return false
		}
		if x.Spec != nil && !x.Spec.WellFormed() {
			return false
		}
		for _, a := range x.Aux {
			if a != nil && !a.WellFormed() {
				return false
			}
		}
		budget--
		f := p.RunCheck(x, nil)
		return f != nil && f.Sig == sig
	}
	cur := c.Clone()
	if !fails(cur) {
		return c
	}
	for progress := true; progress && budget > 0; {
		progress = false
		for _, cand := range candidates(cur) {
			if fails(cand) {
				cur = cand
				progress = true
				break
			}
		}
	}
	return cur
}

// specSlots returns setters for every Spec root of the case.
func specRoots(c *Case) []**gen.Spec {
	var out []**gen.Spec
	if c.Spec != nil {
		out = append(out, &c.Spec)
	}
	for i := range c.Aux {
		out = append(out, &c.Aux[i])
	}
	return out
}

// walk calls f with a pointer to every *Spec slot of the tree.
func walk(slot **gen.Spec, f func(**gen.Spec)) {
	if *slot == nil {
		return
	}
	f(slot)
	s := *slot
	if s.C != nil {
		walk(&s.C, f)
	}
	for i := range s.X {
		walk(&s.X[i], f)
	}
}

func candidates(c *Case) []*Case {
	var out []*Case
	// Count slots on the original; re-locate them by index in clones.
	n := 0
	for _, r := range specRoots(c) {
		walk(r, func(**gen.Spec) { n++ })
	}
	try := func(idx int, mut func(slot **gen.Spec) bool) {
		d := c.Clone()
		i := 0
		done := false
		for _, r := range specRoots(d) {
			walk(r, func(slot **gen.Spec) {
				if i == idx && !done {
					done = mut(slot)
				}
				i++
			})
		}
		if done {
			out = append(out, d)
		}
	}
	// 0. drop auxiliary specs
	for i := range c.Aux {
		d := c.Clone()
		d.Aux = append(d.Aux[:i:i], d.Aux[i+1:]...)
		out = append(out, d)
	}
	for idx := 0; idx < n; idx++ {
		// 1. replace a node by its wrapped error
		try(idx, func(slot **gen.Spec) bool {
			if (*slot).C == nil {
				return false
			}
			*slot = (*slot).C
			return true
		})
		// 2. replace a node by one of its other sub-errors
		for k := 0; k < 3; k++ {
			k := k
			try(idx, func(slot **gen.Spec) bool {
				if k >= len((*slot).X) {
					return false
				}
				*slot = (*slot).X[k]
				return true
			})
		}
		// 3. drop a multi-cause branch
		for k := 0; k < 3; k++ {
			k := k
			try(idx, func(slot **gen.Spec) bool {
				s := *slot
				if !gen.IsMultiKind(s.K) || s.K == "goerrorfmulti" || len(s.X) < 2 || k >= len(s.X) {
					return false
				}
				s.X = append(s.X[:k:k], s.X[k+1:]...)
				if len(s.I) > 0 {
					s.I[0] = 0
				}
				return true
			})
		}
		// 4. replace a sub-tree by a plain leaf
		try(idx, func(slot **gen.Spec) bool {
			s := *slot
			if s.C == nil && len(s.X) == 0 {
				if s.K == "goerr" {
					return false
				}
			}
			*slot = &gen.Spec{K: "goerr", S: []string{"Q000Z"}}
			return true
		})
	}
	// 5. simplify strings
	for idx := 0; idx < n; idx++ {
		for si := 0; si < 6; si++ {
			si := si
			for _, mode := range []int{0, 1, 2} {
				mode := mode
				try(idx, func(slot **gen.Spec) bool {
					s := *slot
					if si >= len(s.S) || s.K == "sentinel" || ((s.K == "risleaf" || s.K == "umultiis") && si == 1) {
						return false
					}
					old := s.S[si]
					var nw string
					switch mode {
					case 0:
						nw = "a"
					case 1:
						nw = old[:runeCut(old)]
					case 2:
						nw = old[runeCut(old):]
					}
					if nw == old || len(nw) >= len(old) && mode != 0 {
						return false
					}
					if mode == 0 && len(old) <= 1 {
						return false
					}
					s.S[si] = nw
					return true
				})
			}
		}
	}
	// 6. lower numeric parameters
	for k, v := range c.N {
		if v > 0 {
			d := c.Clone()
			d.N[k] = 0
			out = append(out, d)
			if v > 1 {
				d := c.Clone()
				d.N[k] = v - 1
				out = append(out, d)
			}
		}
	}
	// 7. shorten list parameters
	for k, l := range c.L {
		for i := range l {
			d := c.Clone()
			d.L[k] = append(append([]string(nil), l[:i]...), l[i+1:]...)
			out = append(out, d)
		}
	}
	return out
}

// runeCut returns an index near the middle of s that is a rune boundary.
func runeCut(s string) int {
	i := len(s) / 2
	for i > 0 && !utf8.RuneStart(s[i]) {
		i--
	}
	return i
}
