package pbt

import (
	"encoding/json"
	"fmt"
	"os"
	"sort"
)

// Stats are the evidence counters of one test process.
type Stats struct {
	Part       string                    `json:"part"`
	Evals      int                       `json:"evals"`
	NonTrivial map[string]struct{}       `json:"-"`
	NTHashes   []string                  `json:"nt_hashes"`
	Hist       map[string]map[string]int `json:"hist"`
	Excluded   map[string]int            `json:"excluded"`
	Samples    []json.RawMessage         `json:"samples"`
	Exhaustive bool                      `json:"exhaustive,omitempty"`
	Notes      []string                  `json:"notes,omitempty"`
	Failures   []FailRecord              `json:"failures,omitempty"`
}

// FailRecord is a failure reported by a test process.
type FailRecord struct {
	Sig    string `json:"sig"`
	Msg    string `json:"msg"`
	Replay string `json:"replay"`
}

func NewStats(part string) *Stats {
	return &Stats{Part: part, NonTrivial: map[string]struct{}{}, Hist: map[string]map[string]int{}, Excluded: map[string]int{}}
}

// Count increments a histogram bucket.
func (s *Stats) Count(hist, bucket string) {
	if s == nil {
		return
	}
	m := s.Hist[hist]
	if m == nil {
		m = map[string]int{}
		s.Hist[hist] = m
	}
	m[bucket]++
}

// CountN puts n in a numeric bucket (capped label).
func (s *Stats) CountN(hist string, n int) { s.Count(hist, fmt.Sprintf("%02d", n)) }

// Eval records one executed case.
func (s *Stats) Eval() {
	if s != nil {
		s.Evals++
	}
}

// NT records a non-trivial case (by hash) and keeps the first few as samples.
func (s *Stats) NT(hash uint64, sample func() interface{}) {
	if s == nil {
		return
	}
	k := fmt.Sprintf("%016x", hash)
	if _, ok := s.NonTrivial[k]; ok {
		return
	}
	s.NonTrivial[k] = struct{}{}
	if len(s.Samples) < 4 {
		b, err := json.Marshal(sample())
		if err == nil {
			s.Samples = append(s.Samples, b)
		}
	}
}

// Exclude counts a case (or sub-case) excluded because it lies in the
// region of a known finding.
func (s *Stats) Exclude(sig string) {
	if s != nil {
		s.Excluded[sig]++
	}
}

// Write stores the counters in the file named by VERIF_STATS (if set).
func (s *Stats) Write() {
	path := os.Getenv("VERIF_STATS")
	if path == "" || s == nil {
		return
	}
	s.NTHashes = []string{}
	for k := range s.NonTrivial {
		s.NTHashes = append(s.NTHashes, k)
	}
	sort.Strings(s.NTHashes)
	b, err := json.Marshal(s)
	if err != nil {
		panic(err)
	}
	// One file per part: VERIF_STATS is a prefix.
	if err := os.WriteFile(path+"."+s.Part+".json", b, 0o644); err != nil {
		panic(err)
	}
}
