package pbt

import (
	"encoding/json"
	"fmt"
	"os"
	"path/filepath"
	"strings"
	"testing"

	"pgregory.net/rapid"
)

// Prop is one executable property.
type Prop struct {
	ID   string // property id, e.g. "C01"
	Part string // name of this part of the check (one stats file per part)
	// Draw generates a case. All randomness comes from t.
	Draw func(t *rapid.T) *Case
	// Check is the oracle. It reports violations through r.Failf and
	// classification through r.St (which may be nil).
	Check func(c *Case, r *R)
	// Valid tells whether a (reduced) case is still inside the
	// property's input domain; nil means any case is.
	Valid func(c *Case) bool
}

// R is handed to the oracle.
type R struct {
	Prop *Prop
	St   *Stats // nil during reduction
	nt   bool
}

type stop struct{ f *Failure }

// Failf reports a violation with failure class sig. If sig is listed
// as a known finding of this property it is only counted, and the
// oracle goes on; otherwise the check of this case stops here.
func (r *R) Failf(sig, format string, args ...interface{}) {
	if IsKnown(r.Prop.ID, sig) {
		r.St.Exclude(sig)
		return
	}
	panic(stop{&Failure{Sig: sig, Msg: fmt.Sprintf(format, args...)}})
}

// NonTrivial marks the current case as non-trivial by the property's rule.
func (r *R) NonTrivial() { r.nt = true }

// Count increments a histogram bucket.
func (r *R) Count(hist, bucket string) { r.St.Count(hist, bucket) }

// RunCheck runs the oracle on a case and converts panics into failures.
func (p *Prop) RunCheck(c *Case, st *Stats) (f *Failure) {
	r := &R{Prop: p, St: st}
	defer func() {
		if x := recover(); x != nil {
			if s, ok := x.(stop); ok {
				f = s.f
				return
			}
			f = &Failure{Sig: "panic in oracle or library", Msg: firstLine(fmt.Sprint(x))}
		}
		if f == nil && r.nt && st != nil {
			st.NT(c.Hash(), func() interface{} { return c })
		}
	}()
	st.Eval()
	p.Check(c, r)
	return nil
}

func firstLine(s string) string {
	if i := strings.IndexByte(s, '\n'); i >= 0 {
		s = s[:i]
	}
	if len(s) > 300 {
		s = s[:300]
	}
	return s
}

// capture is a rapid.TB that records the failure instead of failing
// the enclosing test at once, so that the runner can reduce the case
// and write the replay file first.
type capture struct {
	t      *testing.T
	failed bool
	msgs   []string
}

func (c *capture) Helper()                        {}
func (c *capture) Name() string                   { return c.t.Name() }
func (c *capture) Logf(format string, a ...any)   { c.msgs = append(c.msgs, fmt.Sprintf(format, a...)) }
func (c *capture) Log(a ...any)                   { c.msgs = append(c.msgs, fmt.Sprint(a...)) }
func (c *capture) Skipf(format string, a ...any)  { c.t.Skipf(format, a...) }
func (c *capture) Skip(a ...any)                  { c.t.Skip(a...) }
func (c *capture) SkipNow()                       { c.t.SkipNow() }
func (c *capture) Errorf(format string, a ...any) { c.failed = true; c.Logf(format, a...) }
func (c *capture) Error(a ...any)                 { c.failed = true; c.Log(a...) }
func (c *capture) Fatalf(format string, a ...any) {
	c.failed = true
	c.Logf(format, a...)
	panic(fatalStop{})
}
func (c *capture) Fatal(a ...any) { c.failed = true; c.Log(a...); panic(fatalStop{}) }
func (c *capture) FailNow()       { c.failed = true; panic(fatalStop{}) }
func (c *capture) Fail()          { c.failed = true }
func (c *capture) Failed() bool   { return c.failed }

type fatalStop struct{}

// Run executes the property: replay mode when VERIF_REPLAY names a
// file, generated search otherwise.
func Run(t *testing.T, p *Prop) {
	if path := os.Getenv("VERIF_REPLAY"); path != "" {
		replay(t, p, path)
		return
	}
	st := NewStats(p.Part)
	defer st.Write()

	var last, first *Case
	var lastFail, firstFail *Failure
	ct := &capture{t: t}
	func() {
		defer func() {
			if x := recover(); x != nil {
				if _, ok := x.(fatalStop); !ok {
					panic(x)
				}
			}
		}()
		cur := os.Getenv("VERIF_CURCASE")
		rapid.Check(ct, func(rt *rapid.T) {
			c := p.Draw(rt)
			last = c
			lastFail = nil
			if cur != "" {
				// For checks whose failure kills the process (race
				// detector with halt_on_error): keep the case being
				// executed on disk, in replay-file format.
				_ = os.WriteFile(cur, []byte(`{"property":"`+p.ID+`","part":"`+p.Part+`","case":`+string(c.JSON())+`}`), 0o644)
			}
			if f := p.RunCheck(c, st); f != nil {
				lastFail = f
				if first == nil {
					first, firstFail = c, f
				}
				rt.Fatalf("%s", f.Sig)
			}
		})
	}()
	for _, m := range ct.msgs {
		if strings.Contains(m, "[rapid] OK") || ct.failed {
			t.Log(m)
		}
	}
	if !ct.failed {
		return
	}
	// The last execution is rapid's replay of the minimal failing
	// bit stream.
	if (last == nil || lastFail == nil) && first != nil {
		// The failure did not show again when rapid re-ran the case in
		// this process: it depends on what the process did before (state
		// kept by the code under test across calls). The first failing
		// case is kept as it is; replayed in a fresh process it is the
		// reproduction.
		path := WriteReplay(p, first, firstFail)
		st.Failures = append(st.Failures, FailRecord{Sig: firstFail.Sig, Msg: firstFail.Msg, Replay: path})
		fmt.Printf("FAILCASE property=%s part=%s sig=%q replay=%s\n(not reproduced by a second run in the same process: history-dependent; the case is not reduced)\n%s\n", p.ID, p.Part, firstFail.Sig, path, firstFail.Msg)
		t.Fail()
		return
	}
	if last == nil || lastFail == nil {
		st.Failures = append(st.Failures, FailRecord{Sig: "generator or runner failure", Msg: strings.Join(ct.msgs, "\n")})
		t.Fail()
		return
	}
	red := Reduce(p, last, lastFail.Sig)
	f := p.RunCheck(red, nil)
	if f == nil { // cannot happen: Reduce only keeps failing cases
		red, f = last, lastFail
	}
	path := WriteReplay(p, red, f)
	st.Failures = append(st.Failures, FailRecord{Sig: f.Sig, Msg: f.Msg, Replay: path})
	fmt.Printf("FAILCASE property=%s part=%s sig=%q replay=%s\n%s\n", p.ID, p.Part, f.Sig, path, f.Msg)
	t.Fail()
}

// Fail records a failure found outside rapid (enumerations).
func Fail(t *testing.T, p *Prop, st *Stats, c *Case, f *Failure) {
	path := WriteReplay(p, c, f)
	st.Failures = append(st.Failures, FailRecord{Sig: f.Sig, Msg: f.Msg, Replay: path})
	fmt.Printf("FAILCASE property=%s part=%s sig=%q replay=%s\n%s\n", p.ID, p.Part, f.Sig, path, f.Msg)
	t.Fail()
}

// WriteReplay stores a failing case under VERIF_OUT and returns the path.
func WriteReplay(p *Prop, c *Case, f *Failure) string {
	dir := os.Getenv("VERIF_OUT")
	if dir == "" {
		dir = os.TempDir()
	}
	_ = os.MkdirAll(dir, 0o755)
	path := filepath.Join(dir, fmt.Sprintf("%s-%s-%016x.json", p.ID, p.Part, c.Hash()))
	out := struct {
		Property string   `json:"property"`
		Part     string   `json:"part"`
		Failure  *Failure `json:"failure"`
		Case     *Case    `json:"case"`
	}{p.ID, p.Part, f, c}
	b, _ := json.MarshalIndent(out, "", " ")
	if err := os.WriteFile(path, append(b, '\n'), 0o644); err != nil {
		panic(err)
	}
	return path
}

func replay(t *testing.T, p *Prop, path string) {
	b, err := os.ReadFile(path)
	if err != nil {
		t.Fatalf("replay: %v", err)
	}
	var hdr struct {
		Part string `json:"part"`
	}
	_ = json.Unmarshal(b, &hdr)
	if hdr.Part != "" && hdr.Part != p.Part {
		t.Skipf("replay file is for part %s", hdr.Part)
	}
	c, err := LoadCase(path)
	if err != nil {
		t.Fatalf("replay: %v", err)
	}
	if f := p.RunCheck(c, nil); f != nil {
		fmt.Printf("REPLAY-FAIL property=%s part=%s sig=%q replay=%s\n%s\n", p.ID, p.Part, f.Sig, path, f.Msg)
		t.Fail()
		return
	}
	fmt.Printf("REPLAY-PASS property=%s part=%s replay=%s\n", p.ID, p.Part, path)
}
