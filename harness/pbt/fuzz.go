//go:build verif

package pbt

import (
	"fmt"
	"testing"

	"pgregory.net/rapid"
)

// Fuzz turns a property into a native Go fuzz target: the fuzzer's
// bytes drive the property's own generator (rapid.MakeFuzz), so that
// coverage guidance explores the same case space as the rapid search.
// A failing case is written as an ordinary replay file.
func Fuzz(f *testing.F, p *Prop) {
	// A few byte strings of different lengths and densities as seeds.
	seeds := [][]byte{make([]byte, 64), make([]byte, 512)}
	for n, k := range []int{128, 1024, 4096} {
		b := make([]byte, k)
		x := uint32(2463534242 + n)
		for i := range b {
			x ^= x << 13
			x ^= x >> 17
			x ^= x << 5
			b[i] = byte(x)
		}
		seeds = append(seeds, b)
	}
	for _, s := range seeds {
		f.Add(s)
	}
	f.Fuzz(rapid.MakeFuzz(func(t *rapid.T) {
		c := p.Draw(t)
		if fl := p.RunCheck(c, nil); fl != nil {
			red := Reduce(p, c, fl.Sig)
			if f2 := p.RunCheck(red, nil); f2 != nil {
				c, fl = red, f2
			}
			path := WriteReplay(p, c, fl)
			t.Fatalf("FAILCASE property=%s part=%s sig=%q replay=%s\n%s", p.ID, p.Part, fl.Sig, path, fmt.Sprint(fl.Msg))
		}
	}))
}
