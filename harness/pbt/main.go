//go:build verif

package pbt

import (
	"context"
	"os"
	"testing"

	"github.com/cockroachdb/errors"

	"verif/wire"
)

// Main is the TestMain of every property package: it silences the
// library's warning function and records the registries of the
// "knowing" process.
func Main(m *testing.M) {
	errors.SetWarningFn(func(context.Context, string, ...interface{}) {})
	wire.SnapshotBase()
	os.Exit(m.Run())
}

// Tier is "quick" or "thorough".
func Tier() string {
	if os.Getenv("VERIF_TIER") == "thorough" {
		return "thorough"
	}
	return "quick"
}

// Thorough tells whether the thorough tier is running.
func Thorough() bool { return Tier() == "thorough" }
