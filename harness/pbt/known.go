package pbt

import (
	"encoding/json"
	"os"
	"strings"
)

// Finding is one entry of /verif/known_findings.json.
type Finding struct {
	ID        string `json:"id"`
	Property  string `json:"property"`
	Status    string `json:"status"` // "known" or "fixed"
	Signature string `json:"signature"`
	What      string `json:"what"`
	Commit    string `json:"commit,omitempty"`
	Witness   string `json:"witness,omitempty"`
}

var known []Finding

func init() {
	path := os.Getenv("VERIF_KNOWN")
	if path == "" || os.Getenv("VERIF_NOKNOWN") != "" {
		return
	}
	b, err := os.ReadFile(path)
	if err != nil {
		return
	}
	var f struct {
		Findings []Finding `json:"findings"`
	}
	if err := json.Unmarshal(b, &f); err != nil {
		panic("known findings file: " + err.Error())
	}
	known = f.Findings
}

// IsKnown tells whether a failure signature of the given property is
// listed as a known (not fixed) finding. The file is only read, never
// written.
func IsKnown(property, sig string) bool {
	for _, f := range known {
		if f.Status == "known" && f.Property == property && f.Signature == sig {
			return true
		}
	}
	return false
}

// KnownWithPrefix lists the suffixes of the known signatures of a
// property that start with prefix (used by generators to exclude a
// region by construction, e.g. "unknown-family=").
func KnownWithPrefix(property, prefix string) []string {
	var out []string
	for _, f := range known {
		if f.Status == "known" && f.Property == property && strings.HasPrefix(f.Signature, prefix) {
			out = append(out, strings.TrimPrefix(f.Signature, prefix))
		}
	}
	return out
}
