//go:build verif

// C14 — drop-in compatibility with the standard library and pkg/errors.
package c14

import (
	goErr "errors"
	"fmt"
	"testing"

	"github.com/cockroachdb/errors"
	"github.com/cockroachdb/errors/errbase"
	pkgErr "github.com/pkg/errors"
	"pgregory.net/rapid"

	"verif/gen"
	"verif/obs"
	"verif/pbt"
	"verif/ref"
)

func TestMain(m *testing.M) { pbt.Main(m) }

func draw(t *rapid.T) *pbt.Case {
	maxB := 10
	if pbt.Thorough() {
		maxB = 20
	}
	str := gen.Regular()
	g := gen.Default(str).Boost(2, "uwrapcause", "uwrapsafefmt", "pkgmsg", "pkgstack", "pkgwrap", "uwrapnofmt", "uopt", "risleaf", "sentinel", "ospath", "netop", "dnswrap")
	// A multi-error type that also has a Cause() method (only used here:
	// the library sees it as single-cause wrapper and multi-cause error at once).
	g = g.With("umulticauser", "umulticauser", "umultiis", "umultiis", "umultiholes", "umultiholes", "ucodedanon", "ucodedanon", "uzeroa", "uzerob")
	g.WMulti = 2
	c := &pbt.Case{}
	c.Spec = g.Draw(t, rapid.IntRange(1, maxB).Draw(t, "budget"))
	c.Aux = []*gen.Spec{g.Draw(t, rapid.IntRange(1, 3).Draw(t, "budget2"))}
	return c
}

func try2(f func(error, error) bool, a, b error) (res bool, p string) {
	defer func() {
		if x := recover(); x != nil {
			p = fmt.Sprint(x)
		}
	}()
	return f(a, b), ""
}

func tryAs(f func(error, interface{}) bool, e error, target interface{}) (res bool, p string) {
	defer func() {
		if x := recover(); x != nil {
			p = fmt.Sprint(x)
		}
	}()
	return f(e, target), ""
}

// everyNode explores Unwrap() error, Cause() and Unwrap() []error at
// every node (a node may offer several of them).
func everyNode(e error) []error {
	var out []error
	seen := 0
	var rec func(x error)
	rec = func(x error) {
		if x == nil || seen > 500 {
			return
		}
		seen++
		out = append(out, x)
		if u, ok := x.(interface{ Unwrap() error }); ok {
			rec(u.Unwrap())
		} else if c, ok := x.(interface{ Cause() error }); ok {
			rec(c.Cause())
		}
		if m, ok := x.(interface{ Unwrap() []error }); ok {
			for _, b := range m.Unwrap() {
				rec(b)
			}
		}
	}
	rec(e)
	return out
}

type causer interface{ Cause() error }
type unwrapper interface{ Unwrap() error }

func check(c *pbt.Case, r *pbt.R) {
	e := gen.Build(c.Spec)
	o := gen.Build(c.Aux[0])
	nodes := obs.AllNodes(e)
	refs := append([]error{}, everyNode(e)...)
	refs = append(refs, everyNode(o)...)
	for _, n := range gen.SentinelNames {
		refs = append(refs, gen.Sentinels[n])
	}
	// Cause-only layers: the standard library cannot traverse them.
	causeOnly := false
	for _, n := range nodes {
		_, isC := n.(causer)
		_, isU := n.(unwrapper)
		if isC && !isU {
			causeOnly = true
		}
	}

	stdTrue := 0
	for _, rf := range refs {
		std, p := try2(goErr.Is, e, rf)
		if p != "" {
			continue // the standard library itself panics on these values (C08's subject)
		}
		lib, p := try2(errors.Is, e, rf)
		if p != "" {
			r.Failf("Is panics where the standard library does not", "%s\nr=%T %q\ne=%s", p, rf, rf, c.Spec)
			continue
		}
		if std {
			stdTrue++
		}
		if std && !lib {
			r.Failf("standard errors.Is holds but the library's Is does not", "r=%T %q\ne=%s", rf, rf, c.Spec)
		}
	}

	for i, mk := range ref.AsTargets() {
		tl, ts, tr := mk(), mk(), mk()
		bl, pl := tryAs(errors.As, e, tl)
		br, pr := tryAs(ref.As, e, tr)
		if pl != "" || pr != "" {
			if (pl == "") != (pr == "") {
				r.Failf("As panics", "target %d: lib %q ref %q\n%s", i, pl, pr, c.Spec)
			}
			continue
		}
		if bl != br {
			r.Failf(fmt.Sprintf("As differs from the reference algorithm: As=%v", bl), "target %T\ne=%s", tl, c.Spec)
		} else if bl && !ref.SameVal(ref.Elem(tl), ref.Elem(tr)) {
			r.Failf("As assigns a different value than the reference algorithm", "target %T: %v vs %v\ne=%s", tl, ref.Elem(tl), ref.Elem(tr), c.Spec)
		}
		if !causeOnly {
			bs, ps := tryAs(goErr.As, e, ts)
			if ps != "" {
				continue
			}
			if bs != bl {
				r.Failf(fmt.Sprintf("As differs from the standard errors.As: As=%v", bl), "target %T\ne=%s", tl, c.Spec)
			} else if bs && !ref.SameVal(ref.Elem(tl), ref.Elem(ts)) {
				r.Failf("As assigns a different value than the standard errors.As", "target %T: %v vs %v\ne=%s", tl, ref.Elem(tl), ref.Elem(ts), c.Spec)
			}
		}
	}

	// Unwrap.
	for _, n := range nodes {
		su := goErr.Unwrap(n)
		lu := errors.Unwrap(n)
		if su != nil && !ref.SameVal(su, lu) {
			r.Failf("Unwrap differs from the standard errors.Unwrap", "on %T\ne=%s", n, c.Spec)
		}
		if su == nil {
			if cz, ok := n.(causer); ok {
				if !ref.SameVal(cz.Cause(), lu) {
					r.Failf("Unwrap does not follow Cause() of a Cause-only wrapper", "on %T\ne=%s", n, c.Spec)
				}
			} else if lu != nil {
				r.Failf("Unwrap is non-nil where the standard errors.Unwrap is nil", "on %T\ne=%s", n, c.Spec)
			}
		}
		_, hasCause := n.(causer)
		// (a multi-error type that also has a Cause() method is followed
		// through Cause(), the extension the library documents)
		if _, ok := n.(interface{ Unwrap() []error }); ok && !hasCause && (lu != nil || errors.UnwrapOnce(n) != nil) {
			r.Failf("Unwrap is non-nil on a multi-cause error", "on %T\ne=%s", n, c.Spec)
		}
	}

	// Cause / UnwrapAll vs pkg/errors.Cause on chains pkg/errors can traverse
	// (every layer but the last has a Cause method).
	pkgOK := true
	var last error
	for x := e; x != nil; x = errbase.UnwrapOnce(x) {
		last = x
		if errbase.UnwrapOnce(x) != nil {
			if _, ok := x.(causer); !ok {
				pkgOK = false
			}
		}
	}
	if pkgOK {
		pc := pkgErr.Cause(e)
		if !ref.SameVal(pc, errors.Cause(e)) || !ref.SameVal(pc, errors.UnwrapAll(e)) {
			r.Failf("Cause/UnwrapAll differ from pkg/errors.Cause", "pkg %T lib %T\ne=%s", pc, errors.Cause(e), c.Spec)
		}
		r.Count("chains", "traversable by pkg/errors")
	}
	if !ref.SameVal(errors.UnwrapAll(e), last) || !ref.SameVal(errors.Cause(e), last) {
		r.Failf("Cause/UnwrapAll do not return the innermost layer", "e=%s", c.Spec)
	}

	// The standard library traverses the chain to the same nodes.
	if !causeOnly {
		var stdChain, libChain []error
		for x := e; x != nil; x = goErr.Unwrap(x) {
			stdChain = append(stdChain, x)
			if len(stdChain) > 200 {
				break
			}
		}
		for x := e; x != nil; x = errbase.UnwrapOnce(x) {
			libChain = append(libChain, x)
		}
		if len(stdChain) != len(libChain) {
			r.Failf("the standard errors.Unwrap walks a different chain", "std %d layers, lib %d\ne=%s", len(stdChain), len(libChain), c.Spec)
		} else {
			for i := range stdChain {
				if !ref.SameVal(stdChain[i], libChain[i]) {
					r.Failf("the standard errors.Unwrap walks a different chain", "layer %d\ne=%s", i, c.Spec)
				}
			}
		}
		r.Count("chains", "traversable by the standard library")
	} else {
		r.Count("chains", "with a Cause-only wrapper")
	}

	if len(nodes) >= 3 && stdTrue >= 1 {
		r.NonTrivial()
	}
	r.St.CountN("visible layers", len(nodes))
	for k := range c.Spec.Kinds() {
		r.Count("kinds", k)
	}
}

var prop = &pbt.Prop{ID: "C14", Part: "dropin", Draw: draw, Check: check,
	Valid: func(c *pbt.Case) bool { return gen.SpecRegular(c.Spec) && len(c.Aux) == 1 && gen.SpecRegular(c.Aux[0]) }}

func TestProp(t *testing.T) { pbt.Run(t, prop) }
