//go:build verif

package c05

import (
	"os"
	"testing"

	"github.com/cockroachdb/errors"
	"github.com/cockroachdb/errors/errorspb"
	"github.com/gogo/protobuf/proto"
	"github.com/gogo/protobuf/types"

	"verif/gen"
	"verif/obs"
	"verif/pbt"
	"verif/wire"
)

// complete: every nested error (also inside EncodedError payloads)
// has a leaf or a wrapper set.
func complete(e *errorspb.EncodedError, depth int) bool {
	if depth > 200 {
		return false
	}
	chk := func(d *errorspb.EncodedErrorDetails) bool {
		// Whatever the host part of the type URL says: if the payload
		// resolves to an EncodedError (the resolver only looks at the part
		// after the last '/'), it is a nested error and must be complete too.
		if d.FullDetails != nil {
			var da types.DynamicAny
			if err := types.UnmarshalAny(d.FullDetails, &da); err == nil {
				if in, ok := da.Message.(*errorspb.EncodedError); ok {
					return complete(in, depth+1)
				}
			}
		}
		return true
	}
	if w := e.GetWrapper(); w != nil {
		return chk(&w.Details) && complete(&w.Cause, depth+1)
	}
	if l := e.GetLeaf(); l != nil {
		if !chk(&l.Details) {
			return false
		}
		for _, c := range l.MultierrorCauses {
			if c == nil || !complete(c, depth+1) {
				return false
			}
		}
		return true
	}
	return false
}

var rawProp = &pbt.Prop{ID: "C05", Part: "fuzz", Check: func(c *pbt.Case, r *pbt.R) {
	data := []byte(c.S["wire-bytes-latin1"])
	raw := make([]byte, 0, len(data))
	for _, ch := range c.S["wire-bytes-latin1"] {
		raw = append(raw, byte(ch))
	}
	checkRaw(raw, r)
}}

func checkRaw(data []byte, r *pbt.R) {
	var e errorspb.EncodedError
	if err := proto.Unmarshal(data, &e); err != nil || !complete(&e, 0) {
		return
	}
	var err error
	if p := obs.Try(func() { err = errors.DecodeError(wire.Ctx, e) }); p != "" {
		r.Failf("DecodeError panics on fuzzed wire bytes", "%s\n%s", p, proto.MarshalTextString(&e))
		return
	}
	if err == nil {
		r.Failf("DecodeError returns nil on fuzzed wire bytes", "%s", proto.MarshalTextString(&e))
		return
	}
	if op, p := obs.Exercise(err); p != "" {
		r.Failf("using an error decoded from fuzzed wire bytes panics: op="+op, "%s\n%s", p, proto.MarshalTextString(&e))
	}
}

// FuzzDecode: arbitrary wire bytes that unmarshal into a structurally
// complete EncodedError must decode into a usable error.
func FuzzDecode(f *testing.F) {
	// Seed corpus: valid encodings of one example per constructor kind
	// and a sample of the fault grid.
	for _, s := range gen.Examples() {
		f.Add(wire.Encode(gen.Build(s)))
	}
	pfs := payloadFaults()
	for i, k := range registeredKeys() {
		enc := message(k.key, i%3, i%3, pfs[(i*7)%len(pfs)], detailFaults[i%3], []int{0, 1, 7}[i%3])
		f.Add(wire.Marshal(&enc))
	}
	f.Fuzz(func(t *testing.T, data []byte) {
		c := &pbt.Case{}
		// bytes as a latin-1 string so that the replay file is plain JSON
		rs := make([]rune, len(data))
		for i, b := range data {
			rs[i] = rune(b)
		}
		c.SetStr("wire-bytes-latin1", string(rs))
		if fl := rawProp.RunCheck(c, nil); fl != nil {
			path := pbt.WriteReplay(rawProp, c, fl)
			t.Fatalf("FAILCASE property=C05 part=fuzz sig=%q replay=%s\n%s", fl.Sig, path, fl.Msg)
		}
	})
}

func TestFuzzReplay(t *testing.T) {
	if os.Getenv("VERIF_REPLAY") == "" {
		t.Skip("replay only")
	}
	pbt.Run(t, rawProp)
}
