//go:build verif

// C05 — decoding is total: no panic, always an error.
package c05

import (
	"context"
	"fmt"
	"os"
	"sort"
	"strconv"
	"strings"
	"testing"

	"github.com/cockroachdb/errors"
	"github.com/cockroachdb/errors/errbase"
	"github.com/cockroachdb/errors/errorspb"
	"github.com/gogo/protobuf/proto"
	"github.com/gogo/protobuf/types"
	"pgregory.net/rapid"

	"verif/gen"
	"verif/obs"
	"verif/pbt"
	"verif/wire"
)

func TestMain(m *testing.M) { pbt.Main(m) }

// ---------- catalogue: keys from the live registries, payload types from real encodings ----------

type keyInfo struct {
	key  string
	kind string // "leaf", "wrapper", "multi"
}

func registeredKeys() []keyInfo {
	ks := errbase.VerifSnapshotRegistry().Keys()
	var out []keyInfo
	for _, k := range ks.LeafDecoders {
		out = append(out, keyInfo{string(k), "leaf"})
	}
	for _, k := range ks.WrapperDecoders {
		out = append(out, keyInfo{string(k), "wrapper"})
	}
	for _, k := range ks.MultiCauseDecoders {
		out = append(out, keyInfo{string(k), "multi"})
	}
	sort.Slice(out, func(i, j int) bool { return out[i].key+out[i].kind < out[j].key+out[j].kind })
	return out
}

type payloadFault struct {
	name string
	any  *types.Any
}

// payloadFaults: absent; every payload type the library actually
// puts on the wire, filled and empty; an unregistered Any; a
// registered URL with garbage bytes.
func payloadFaults() []payloadFault {
	seen := map[string]proto.Message{}
	for _, s := range gen.Examples() {
		enc := errors.EncodeError(wire.Ctx, gen.Build(s))
		wire.VisitDetails(&enc, func(d *errorspb.EncodedErrorDetails, _ bool) {
			if d.FullDetails == nil {
				return
			}
			if _, ok := seen[d.FullDetails.TypeUrl]; ok {
				return
			}
			var da types.DynamicAny
			if err := types.UnmarshalAny(d.FullDetails, &da); err == nil {
				seen[d.FullDetails.TypeUrl] = da.Message
			}
		})
	}
	var urls []string
	for u := range seen {
		urls = append(urls, u)
	}
	sort.Strings(urls)
	out := []payloadFault{{"absent", nil}}
	for _, u := range urls {
		short := u[strings.LastIndex(u, "/")+1:]
		a, _ := types.MarshalAny(seen[u])
		out = append(out, payloadFault{"filled:" + short, a})
		if strings.HasSuffix(short, "errorspb.EncodedError") {
			// An empty EncodedError is a nested error without leaf or
			// wrapper: not structurally complete, outside the property's
			// domain (any decoder may take the payload for a nested error).
			continue
		}
		p2 := proto.Clone(seen[u])
		p2.Reset()
		a2, _ := types.MarshalAny(p2)
		out = append(out, payloadFault{"empty:" + short, a2})
	}
	out = append(out, payloadFault{"unregistered", &types.Any{TypeUrl: "type.googleapis.com/no.such.Type", Value: []byte{1, 2, 3}}})
	for _, u := range urls {
		short := u[strings.LastIndex(u, "/")+1:]
		out = append(out, payloadFault{"garbage:" + short, &types.Any{TypeUrl: u, Value: []byte{0xff, 0xff, 0xff}}})
	}
	return out
}

var detailFaults = [][]string{nil, {"x"}, {"x", "y", "z", "w"}}

func leafEnc(msg string) errorspb.EncodedError {
	return errorspb.EncodedError{Error: &errorspb.EncodedError_Leaf{Leaf: &errorspb.EncodedErrorLeaf{Message: msg,
		Details: errorspb.EncodedErrorDetails{OriginalTypeName: "errors/*errors.errorString", ErrorTypeMark: errorspb.ErrorTypeMark{FamilyName: "errors/*errors.errorString"}}}}}
}

// message builds the EncodedError for one point of the grid.
func message(key string, pos, carrier int, pf payloadFault, details []string, mt int) errorspb.EncodedError {
	det := errorspb.EncodedErrorDetails{
		OriginalTypeName:  key,
		ErrorTypeMark:     errorspb.ErrorTypeMark{FamilyName: key},
		ReportablePayload: details,
		FullDetails:       pf.any,
	}
	inner := leafEnc("inner")
	// A valid two-layer chain used below / around the faulty node.
	valid := wire.Unmarshal(wire.Encode(errors.Wrap(errors.New("valid leaf"), "valid prefix")))
	var node errorspb.EncodedError
	cause := inner
	if carrier == 1 {
		cause = valid
	}
	switch pos {
	case 0: // as leaf
		node = errorspb.EncodedError{Error: &errorspb.EncodedError_Leaf{Leaf: &errorspb.EncodedErrorLeaf{Message: "m", Details: det}}}
	case 1: // as wrapper
		node = errorspb.EncodedError{Error: &errorspb.EncodedError_Wrapper{Wrapper: &errorspb.EncodedWrapper{Cause: cause, Message: "m", Details: det, MessageType: errorspb.MessageType(mt)}}}
	case 2: // as multi-cause leaf
		c2 := inner
		node = errorspb.EncodedError{Error: &errorspb.EncodedError_Leaf{Leaf: &errorspb.EncodedErrorLeaf{Message: "m", Details: det, MultierrorCauses: []*errorspb.EncodedError{&cause, &c2}}}}
	}
	switch carrier {
	case 0: // on top
		return node
	case 1: // in the middle of a carrier chain: valid wrappers above (and a valid chain below for wrappers)
		w := wire.Unmarshal(wire.Encode(errors.WithHint(errors.Wrap(errors.New("placeholder"), "outer"), "hint")))
		// replace the innermost leaf of w by node
		cur := &w
		for cur.GetWrapper() != nil {
			cur = &cur.GetWrapper().Cause
		}
		*cur = node
		return w
	default: // nested: as the hidden error of a barrier (payload is an EncodedError in an Any)
		a, err := types.MarshalAny(&node)
		if err != nil {
			panic(err)
		}
		bk := "github.com/cockroachdb/errors/barriers/*barriers.barrierErr"
		return errorspb.EncodedError{Error: &errorspb.EncodedError_Leaf{Leaf: &errorspb.EncodedErrorLeaf{Message: "masked",
			Details: errorspb.EncodedErrorDetails{OriginalTypeName: bk, ErrorTypeMark: errorspb.ErrorTypeMark{FamilyName: bk}, FullDetails: a}}}}
	}
}

func shortKey(k string) string { return k[strings.LastIndex(k, "/")+1:] }

var posNames = []string{"leaf", "wrapper", "multi-cause leaf"}
var carrierNames = []string{"top", "middle of a chain", "nested in a barrier payload"}

// decodeAndUse is the oracle.
func decodeAndUse(enc errorspb.EncodedError, key string, pos int) *pbt.Failure {
	// Through real bytes, as on the network.
	b := wire.Marshal(&enc)
	var e error
	if p := obs.Try(func() { e = wire.Decode(b) }); p != "" {
		return &pbt.Failure{Sig: "DecodeError panics: key=" + shortKey(key) + " position=" + posNames[pos], Msg: p}
	}
	if e == nil {
		return &pbt.Failure{Sig: "DecodeError returns nil: key=" + shortKey(key) + " position=" + posNames[pos], Msg: "nil"}
	}
	if op, p := obs.Exercise(e); p != "" {
		return &pbt.Failure{Sig: "using the decoded error panics: key=" + shortKey(key) + " position=" + posNames[pos] + " op=" + op, Msg: p}
	}
	return nil
}

var gridProp = &pbt.Prop{ID: "C05", Part: "fault-grid", Check: gridCheck}

// gridCheck replays one point of the grid (case parameters name it).
func gridCheck(c *pbt.Case, r *pbt.R) {
	var pf payloadFault
	found := false
	for _, f := range payloadFaults() {
		if f.name == c.S["payload"] {
			pf, found = f, true
		}
	}
	if !found {
		panic("unknown payload fault " + c.S["payload"])
	}
	enc := message(c.S["key"], c.Int("pos"), c.Int("carrier"), pf, detailFaults[c.Int("details")], c.Int("mt"))
	if f := decodeAndUse(enc, c.S["key"], c.Int("pos")); f != nil {
		r.Failf(f.Sig, "%s\nkey %s as %s, %s, payload %s, %d details, message type %d", f.Msg, c.S["key"], posNames[c.Int("pos")], carrierNames[c.Int("carrier")], c.S["payload"], len(detailFaults[c.Int("details")]), c.Int("mt"))
	}
}

// TestGrid enumerates the whole fault grid (sharded by key).
func TestGrid(t *testing.T) {
	if os.Getenv("VERIF_REPLAY") != "" {
		pbt.Run(t, gridProp)
		return
	}
	st := pbt.NewStats("fault-grid")
	defer st.Write()
	shard, _ := strconv.Atoi(os.Getenv("VERIF_SHARD"))
	nshards, _ := strconv.Atoi(os.Getenv("VERIF_NSHARDS"))
	if nshards <= 0 {
		nshards = 1
	}
	keys := registeredKeys()
	// Keys that are registered but whose decoder is never reached in a
	// position: the registry decides by position, so every key is tried
	// in all three positions.
	pfs := payloadFaults()
	st.Notes = append(st.Notes, fmt.Sprintf("fault grid: %d registered decoder keys x 3 positions x 3 carriers x %d payload faults x 3 detail lists x message types {0,1,7} (wrapper position only)", len(keys), len(pfs)))
	reported := map[string]bool{}
	for ki, k := range keys {
		if ki%nshards != shard {
			continue
		}
		for pos := 0; pos < 3; pos++ {
			reaches := (pos == 0 && k.kind == "leaf") || (pos == 1 && k.kind == "wrapper") || (pos == 2 && k.kind == "multi")
			for carrier := 0; carrier < 3; carrier++ {
				for _, pf := range pfs {
					for di := range detailFaults {
						mts := []int{0}
						if pos == 1 {
							mts = []int{0, 1, 7}
						}
						for _, mt := range mts {
							c := &pbt.Case{}
							c.SetStr("key", k.key)
							c.SetStr("payload", pf.name)
							c.SetInt("pos", pos)
							c.SetInt("carrier", carrier)
							c.SetInt("details", di)
							c.SetInt("mt", mt)
							f := gridProp.RunCheck(c, st)
							st.Count("position", posNames[pos])
							st.Count("carrier", carrierNames[carrier])
							if reaches {
								st.NT(c.Hash(), func() interface{} { return c })
								st.Count("registered decoder reached", shortKey(k.key))
							}
							if f != nil && !reported[f.Sig] {
								reported[f.Sig] = true
								pbt.Fail(t, gridProp, st, c, f)
							}
						}
					}
				}
			}
		}
	}
	st.Exhaustive = true
}

// ---------- generated mutations of valid encodings ----------

func drawMut(t *rapid.T) *pbt.Case {
	c := &pbt.Case{}
	c.Spec = gen.Draw(t, gen.Hostile(), rapid.IntRange(1, 8).Draw(t, "budget"))
	n := rapid.IntRange(1, 4).Draw(t, "nmut")
	var muts []string
	for i := 0; i < n; i++ {
		muts = append(muts, fmt.Sprintf("%s:%d:%d",
			rapid.SampledFrom([]string{"swap-payload", "drop-payload", "truncate-details", "extra-details", "retarget-family", "message-type", "empty-payload", "garble-payload", "clear-message", "garble-details", "garble-details", "stack-details", "stack-details"}).Draw(t, "mut"),
			rapid.IntRange(0, 30).Draw(t, "a"), rapid.OneOf(rapid.IntRange(0, 60), rapid.IntRange(0, 8*8*8*8*8*8-1)).Draw(t, "b")))
	}
	c.SetList("mutations", muts)
	return c
}

func mutate(enc *errorspb.EncodedError, muts []string) {
	keys := registeredKeys()
	for _, m := range muts {
		var op string
		var a, b int
		parts := strings.Split(m, ":")
		op = parts[0]
		a, _ = strconv.Atoi(parts[1])
		b, _ = strconv.Atoi(parts[2])
		var ds []*errorspb.EncodedErrorDetails
		var ws []*errorspb.EncodedWrapper
		var collect func(e *errorspb.EncodedError)
		collect = func(e *errorspb.EncodedError) {
			if w := e.GetWrapper(); w != nil {
				ds = append(ds, &w.Details)
				ws = append(ws, w)
				collect(&w.Cause)
			} else if l := e.GetLeaf(); l != nil {
				ds = append(ds, &l.Details)
				for _, c := range l.MultierrorCauses {
					collect(c)
				}
			}
		}
		collect(enc)
		d := ds[a%len(ds)]
		switch op {
		case "swap-payload":
			o := ds[b%len(ds)]
			d.FullDetails, o.FullDetails = o.FullDetails, d.FullDetails
		case "drop-payload":
			d.FullDetails = nil
		case "truncate-details":
			if len(d.ReportablePayload) > 0 {
				d.ReportablePayload = d.ReportablePayload[:b%len(d.ReportablePayload)]
			}
		case "extra-details":
			d.ReportablePayload = append(d.ReportablePayload, "extra", "extra2")
		case "retarget-family":
			k := keys[b%len(keys)].key
			d.ErrorTypeMark.FamilyName = k
			if b%2 == 0 {
				d.OriginalTypeName = k
			}
		case "message-type":
			if len(ws) > 0 {
				ws[a%len(ws)].MessageType = errorspb.MessageType(b % 9)
			}
		case "empty-payload":
			// (an empty nested EncodedError would not be structurally complete)
			if d.FullDetails != nil && !strings.Contains(d.FullDetails.TypeUrl, "EncodedError") {
				d.FullDetails = &types.Any{TypeUrl: d.FullDetails.TypeUrl}
			}
		case "garble-payload":
			if d.FullDetails != nil && !strings.Contains(d.FullDetails.TypeUrl, "EncodedError") {
				d.FullDetails = &types.Any{TypeUrl: d.FullDetails.TypeUrl, Value: []byte{0xff, byte(b), 0xff}}
			}
		case "stack-details":
			// replace the printed stack of a stack-carrying layer (any
			// layer if there is none) by a sequence of up to six lines over
			// the grammar of printed stacks: function lines, tab-indented
			// file:line lines, blanks - in any order and multiplicity.
			atoms := []string{"main.f", "\tfile.go:12", "\t/x/y.go:7", "\tfile.go", "", "\t", "unknown", "pkg.(*T).M"}
			var lines []string
			for x := b; x > 0 && len(lines) < 6; x /= 8 {
				lines = append(lines, atoms[x%8])
			}
			tgt := d
			var stacks []*errorspb.EncodedErrorDetails
			for _, x := range ds {
				if strings.Contains(x.ErrorTypeMark.FamilyName, "withStack") || strings.Contains(x.ErrorTypeMark.FamilyName, "fundamental") {
					stacks = append(stacks, x)
				}
			}
			if len(stacks) > 0 {
				tgt = stacks[a%len(stacks)]
			}
			if len(tgt.ReportablePayload) > 0 {
				tgt.ReportablePayload[0] = strings.Join(lines, "\n")
			} else {
				tgt.ReportablePayload = []string{strings.Join(lines, "\n")}
			}
		case "garble-details":
			// replace one reportable string (e.g. a printed stack trace) by other text
			texts := []string{"", "x", "single line", "a\nb", "\n", "main.f\n\tfile.go:12\nunknown", "main.f\n\tfile.go", "f\n\t:\n", "‹x›", "\tfile.go:notanumber"}
			if len(d.ReportablePayload) > 0 {
				d.ReportablePayload[b%len(d.ReportablePayload)] = texts[a%len(texts)]
			} else {
				d.ReportablePayload = []string{texts[a%len(texts)]}
			}
		case "clear-message":
			if len(ws) > 0 {
				ws[a%len(ws)].Message = ""
			}
		}
	}
}

func checkMut(c *pbt.Case, r *pbt.R) {
	enc := wire.Unmarshal(wire.Encode(gen.Build(c.Spec)))
	mutate(&enc, c.L["mutations"])
	b := wire.Marshal(&enc)
	var e error
	if p := obs.Try(func() { e = wire.Decode(b) }); p != "" {
		r.Failf("DecodeError panics on a mutated valid encoding", "%s\nmutations %v\nspec %s", p, c.L["mutations"], c.Spec)
		return
	}
	if e == nil {
		r.Failf("DecodeError returns nil on a mutated valid encoding", "mutations %v\nspec %s", c.L["mutations"], c.Spec)
		return
	}
	if op, p := obs.Exercise(e); p != "" {
		r.Failf("using an error decoded from a mutated valid encoding panics: op="+op, "%s\nmutations %v\nspec %s", p, c.L["mutations"], c.Spec)
	}
	if c.Spec.Size() >= 2 {
		r.NonTrivial()
	}
	for _, m := range c.L["mutations"] {
		r.Count("mutations", strings.Split(m, ":")[0])
	}
}

var mutProp = &pbt.Prop{ID: "C05", Part: "mutations", Draw: drawMut, Check: checkMut}

func TestMutations(t *testing.T) { pbt.Run(t, mutProp) }

// TestUnregister: registering a decoder and unregistering it again
// (nil) must leave DecodeError total for that key, in every registry.
func TestUnregister(t *testing.T) {
	st := pbt.NewStats("unregister")
	defer st.Write()
	p := &pbt.Prop{ID: "C05", Part: "unregister"}
	base := errbase.VerifSnapshotRegistry()
	defer errbase.VerifInstallRegistry(base)
	key := errbase.TypeKey("verif/props/c05/*c05.ephemeral")
	regs := []struct {
		name string
		on   func()
		off  func()
	}{
		{"leaf", func() {
			errbase.RegisterLeafDecoder(key, func(context.Context, string, []string, proto.Message) error { return errors.New("decoded") })
		}, func() { errbase.RegisterLeafDecoder(key, nil) }},
		{"wrapper", func() {
			errbase.RegisterWrapperDecoder(key, func(_ context.Context, c error, _ string, _ []string, _ proto.Message) error {
				return errors.WithStack(c)
			})
		}, func() { errbase.RegisterWrapperDecoder(key, nil) }},
		{"multi-cause", func() {
			errbase.RegisterMultiCauseDecoder(key, func(_ context.Context, cs []error, _ string, _ []string, _ proto.Message) error {
				return errors.Join(cs...)
			})
		}, func() { errbase.RegisterMultiCauseDecoder(key, nil) }},
	}
	n := uint64(0)
	for _, rg := range regs {
		for pos := 0; pos < 3; pos++ {
			errbase.VerifInstallRegistry(base)
			rg.on()
			rg.off()
			st.Eval()
			n++
			enc := message(string(key), pos, 0, payloadFault{"absent", nil}, nil, 0)
			if f := decodeAndUse(enc, string(key), pos); f != nil {
				c := &pbt.Case{}
				c.SetStr("registry", rg.name)
				c.SetInt("pos", pos)
				f.Sig = "after unregistering a " + rg.name + " decoder: " + f.Sig
				pbt.Fail(t, p, st, c, f)
			}
			st.NT(n, func() interface{} { return "register+unregister " + rg.name + " decoder, decode as " + posNames[pos] })
		}
	}
	st.Exhaustive = true
}
