//go:build verif

// C18 — read-only use of a shared error is concurrency-safe and
// deterministic. The binary is built with -race.
package c18

import (
	"fmt"
	"strings"
	"sync"
	"testing"

	"github.com/cockroachdb/errors"
	"github.com/cockroachdb/redact"
	"pgregory.net/rapid"

	"verif/gen"
	"verif/obs"
	"verif/pbt"
	"verif/ref"
	"verif/wire"
)

func TestMain(m *testing.M) { pbt.Main(m) }

const goroutines = 8
const rounds = 2

// observe runs every read-only operation of the property on e.
func observe(e error) string {
	var b strings.Builder
	for _, v := range []string{"%v", "%+v", "%q", "%x", "%40v", "%-12s", "%.7v", "%10.3s"} {
		b.WriteString(fmt.Sprintf(v, e))
		b.WriteString(fmt.Sprintf(v, errors.Formattable(e)))
	}
	rs := redact.Sprintf("%+v", e)
	b.WriteString(string(rs))
	b.WriteString(string(rs.Redact()))
	b.WriteString(string(redact.Sprintf("%v", e)))
	b.Write(wire.Encode(e))
	for _, kv := range obs.Snapshot(e, obs.Opt{}) {
		b.WriteString(kv.K + "=" + kv.V + "\n")
	}
	for _, d := range errors.GetAllSafeDetails(e) {
		b.WriteString(d.OriginalTypeName + strings.Join(d.SafeDetails, "|"))
	}
	ev, ex := errors.BuildSentryReport(e)
	b.WriteString(ev.Message)
	for _, exc := range ev.Exception {
		b.WriteString(exc.Type + exc.Value + exc.Module)
	}
	b.WriteString(fmt.Sprint(ex["error types"]))
	for _, n := range gen.SentinelNames {
		b.WriteString(fmt.Sprint(errors.Is(e, gen.Sentinels[n])))
	}
	b.WriteString(fmt.Sprint(errors.Is(e, e), errors.IsAny(e, gen.UserSentinelGo, e)))
	for _, mk := range ref.AsTargets() {
		t := mk()
		b.WriteString(fmt.Sprint(obs.Try(func() { b.WriteString(fmt.Sprint(errors.As(e, t))) })))
	}
	b.WriteString(strings.Join(errors.GetAllHints(e), "|") + errors.FlattenDetails(e))
	return b.String()
}

func draw(t *rapid.T) *pbt.Case {
	maxB := 10
	if pbt.Thorough() {
		maxB = 20
	}
	c := &pbt.Case{}
	g := gen.Default(gen.Regular()).Boost(2, gen.BarrierKinds...).Boost(2, "tags", "secondary", "mark", "join", "safedetails", "stack").Boost(4, "telemetry").Boost(2, "domain", "ukeymarker").Boost(3, "hint", "detail", "hintf0")
	// (structural extremes more often than elsewhere, and the ones that
	// meet buffers and limits: many keys, very long strings, deep chains)
	g.XRate, g.XClasses = 25, []string{"keys", "keys", "long", "long", "deep", "wide"}
	c.Spec = g.Draw(t, rapid.IntRange(1, maxB).Draw(t, "budget"))
	gen.SprinkleRepeats(t, c.Spec)
	if rapid.IntRange(0, 2).Draw(t, "repeated") == 0 {
		c.Spec = gen.WithRepeatedAnnotations(t, g, c.Spec)
	}
	if rapid.Bool().Draw(t, "derived") {
		// Construct the feature: an outermost layer of a kind whose
		// observers compute something from the stored data on every call
		// (redacted tags, safe details of a hidden error, printed stacks,
		// joined keys) - where a lazily filled cache would sit. Every such
		// kind is equally likely (the catalogue has grown past a hundred
		// kinds, which made each of them rare by plain drawing).
		k := rapid.SampledFrom([]string{"tags", "tags", "handled", "handledmsg", "secondary", "stack", "safedetails", "telemetry", "issuelink", "mark", "domain", "wrapf", "hint"}).Draw(t, "derivedkind")
		w := g.WrapOf(t, k, c.Spec)
		for j := range w.X {
			w.X[j] = g.Draw(t, 3)
		}
		c.Spec = w
	}
	// 0 local, 1 received by a process that knows the types, 2 received by
	// a process that knows none of them (every layer an opaque value)
	c.SetInt("decoded", rapid.IntRange(0, 2).Draw(t, "decoded"))
	return c
}

// History independence ("each call returns the same result as when
// executed alone"): what the observers return for an error does not
// depend on which other errors the process has handled before. A case
// is a sequence of trees: the first one is observed on a fresh build,
// then the others are observed, then a fresh build of the first one
// again - a memo, pooled buffer or registry entry keyed too coarsely
// shows as a difference.
func drawHistory(t *rapid.T) *pbt.Case {
	maxB, maxN := 6, 5
	if pbt.Thorough() {
		maxB, maxN = 10, 8
	}
	g := gen.Default(gen.Regular()).Boost(3, "domain", "ukeymarker", "stack", "tags", "telemetry", "mark")
	g.XRate, g.XClasses = 25, []string{"keys", "keys", "long", "long", "deep", "wide"}
	c := &pbt.Case{}
	c.Spec = g.Draw(t, rapid.IntRange(1, maxB).Draw(t, "budget"))
	if rapid.Bool().Draw(t, "valuelayer") {
		// Construct the feature: the first tree gets an outermost layer
		// that carries a value, and one of the trees handled in between
		// is the same tree with other values in that layer (same Go
		// types throughout: what a memo keyed by type would confuse).
		k := rapid.SampledFrom([]string{"domain", "domain", "ukeymarker", "telemetry", "tags", "httpcode", "grpccode", "hint", "issuelink", "safedetails"}).Draw(t, "valuekind")
		inner := c.Spec
		if rapid.Bool().Draw(t, "twice") {
			// the same kind of annotation applied twice in a row
			inner = g.WrapOf(t, k, inner)
		}
		c.Spec = g.WrapOf(t, k, inner)
		c.Aux = append(c.Aux, g.WrapOf(t, k, inner.Clone()))
	}
	for i, n := 0, rapid.IntRange(1, maxN).Draw(t, "others"); i < n; i++ {
		if rapid.IntRange(0, 3).Draw(t, "variant") == 0 {
			// a near-equal variant of the first tree (same types, other values)
			p, _ := gen.Perturb(t, c.Spec)
			c.Aux = append(c.Aux, p)
		} else {
			c.Aux = append(c.Aux, g.Draw(t, rapid.IntRange(1, maxB).Draw(t, "budget")))
		}
	}
	gen.SprinkleRepeats(t, c.Spec)
	if rapid.IntRange(0, 3).Draw(t, "repeated") == 0 {
		c.Spec = gen.WithRepeatedAnnotations(t, g, c.Spec)
	}
	c.SetInt("decoded", rapid.IntRange(0, 2).Draw(t, "decoded"))
	return c
}

func checkHistory(c *pbt.Case, r *pbt.R) {
	mk := func(s *gen.Spec) error {
		e := gen.Build(s)
		switch c.Int("decoded") {
		case 1:
			return wire.Decode(wire.Encode(e))
		case 2:
			enc := wire.Unmarshal(wire.Encode(e))
			wire.Rename(&enc, func(string) bool { return true })
			return errors.DecodeError(wire.Ctx, enc)
		}
		return e
	}
	// (one call site for all builds: stack traces record the line)
	seq := append(append([]*gen.Spec{c.Spec}, c.Aux...), c.Spec)
	res := make([]string, len(seq))
	for i, s := range seq {
		res[i] = observe(mk(s))
	}
	if got, want := res[len(seq)-1], res[0]; got != want {
		r.Failf("the result of a call depends on which other errors were handled before", "spec %s\nin between: %v\n%s", c.Spec, c.Aux, firstDiff(got, want))
	}
	// "Error structs are never mutated after construction": wrapping an
	// error (and using the wrapper) leaves the wrapped error as it was.
	if c.Spec.C != nil && !gen.IsMultiKind(c.Spec.K) {
		inner := gen.Build(c.Spec.C)
		before := observe(inner)
		top := *c.Spec
		top.C = &gen.Spec{K: "prebuilt"}
		gen.Prebuilt = inner
		outer := gen.Build(&top)
		gen.Prebuilt = nil
		observe(outer)
		if after := observe(inner); after != before {
			r.Failf("wrapping an error (and using the wrapper) changes the wrapped error", "wrapper %s\nspec %s\n%s", c.Spec.K, c.Spec, firstDiff(after, before))
		}
		r.Count("features", "wrapped error observed before and after wrapping")
	}
	if len(c.Aux) >= 2 {
		r.NonTrivial()
	}
	r.St.CountN("errors handled in between", len(c.Aux))
	r.Count("decoded", fmt.Sprint(c.Int("decoded")))
}

var histProp = &pbt.Prop{ID: "C18", Part: "history-independence", Draw: drawHistory, Check: checkHistory,
	Valid: func(c *pbt.Case) bool {
		for _, a := range c.Aux {
			if !gen.SpecRegular(a) {
				return false
			}
		}
		return gen.SpecRegular(c.Spec)
	}}

func TestHistory(t *testing.T) { pbt.Run(t, histProp) }

func check(c *pbt.Case, r *pbt.R) {
	// Two identical errors built at the same call site: one is shared
	// by the goroutines while still untouched (so that a lazily filled
	// cache is first written concurrently), the other gives the
	// result of executing alone.
	var es [2]error
	var bytes0 []byte
	if c.Int("decoded") >= 1 {
		bytes0 = wire.Encode(gen.Build(c.Spec))
	}
	for i := range es {
		if c.Int("decoded") == 2 {
			enc := wire.Unmarshal(bytes0)
			wire.Rename(&enc, func(string) bool { return true })
			es[i] = errors.DecodeError(wire.Ctx, enc)
		} else if bytes0 != nil {
			es[i] = wire.Decode(bytes0)
		} else {
			es[i] = gen.Build(c.Spec)
		}
	}
	shared, twin := es[0], es[1]
	// Read-only use does not modify the error: its encoding is the same
	// before and after all observers have run.
	pristineBytes := wire.Encode(es[1])
	want := observe(twin)
	if after := wire.Encode(twin); string(after) != string(pristineBytes) {
		r.Failf("observing an error modifies it (its encoding changes)", "spec %s", c.Spec)
	}
	// ... and executing alone twice gives the same result (an observer
	// that modifies the error would show here even without a second goroutine).
	if again := observe(twin); again != want {
		r.Failf("a second call on the same error returns another result than the first", "spec %s\n%s", c.Spec, firstDiff(again, want))
	}
	for round := 0; round < rounds; round++ {
		var wg sync.WaitGroup
		res := make([]string, goroutines)
		start := make(chan struct{})
		for i := 0; i < goroutines; i++ {
			wg.Add(1)
			go func(i int) {
				defer wg.Done()
				<-start
				res[i] = observe(shared)
			}(i)
		}
		close(start)
		wg.Wait()
		for i, got := range res {
			if got != want {
				r.Failf("a concurrent call returns another result than when executed alone", "round %d goroutine %d\nspec %s\n%s", round, i, c.Spec, firstDiff(got, want))
			}
		}
	}
	if got := observe(shared); got != want {
		r.Failf("a call after concurrent use returns another result than on a fresh error", "spec %s\n%s", c.Spec, firstDiff(got, want))
	}
	if c.Spec.Size() >= 3 {
		r.NonTrivial()
	}
	r.St.CountN("spec nodes", c.Spec.Size())
	r.Count("decoded", fmt.Sprint(c.Int("decoded")))
	for k := range c.Spec.Kinds() {
		r.Count("kinds", k)
	}
}

func firstDiff(a, b string) string {
	n := len(a)
	if len(b) < n {
		n = len(b)
	}
	i := 0
	for i < n && a[i] == b[i] {
		i++
	}
	lo := i - 60
	if lo < 0 {
		lo = 0
	}
	hiA, hiB := i+100, i+100
	if hiA > len(a) {
		hiA = len(a)
	}
	if hiB > len(b) {
		hiB = len(b)
	}
	return fmt.Sprintf("first difference at byte %d:\n concurrent: %q\n alone:      %q", i, a[lo:hiA], b[lo:hiB])
}

var prop = &pbt.Prop{ID: "C18", Part: "concurrent-readers", Draw: draw, Check: check,
	Valid: func(c *pbt.Case) bool { return gen.SpecRegular(c.Spec) }}

func TestProp(t *testing.T) { pbt.Run(t, prop) }
