//go:build verif

// C19 — hints and details are aggregated in order, hints de-duplicated.
package c19

import (
	"fmt"
	"sort"
	"strings"
	"testing"

	"github.com/cockroachdb/errors"
	"pgregory.net/rapid"

	"verif/gen"
	"verif/obs"
	"verif/pbt"
	"verif/wire"
)

func TestMain(m *testing.M) { pbt.Main(m) }

// A small pool forces repeats; the empty string is part of it.
var pool = []string{"Q101Z alpha", "Q102Z beta\nsecond line", "Q103Z: gamma", "Q104Z", "", "Q101Z alpha\n", " Q101Z alpha", " ", "\n", "Q105Z 100%", "%d%%"}

func poolStr(t *rapid.T, label string) string { return rapid.SampledFrom(pool).Draw(t, label) }

var annot = []string{"hint", "detail", "hintf0", "detailf0", "issuelink", "telemetry", "tags", "assertion", "uhinter", "domain", "httpcode"}

func draw(t *rapid.T) *pbt.Case {
	maxL := 8
	if pbt.Thorough() {
		maxL = 14
	}
	g := gen.Default(poolStr)
	reg := gen.Default(gen.Regular())
	// innermost: a leaf that may itself carry hints (unimplemented, assertion), or a barrier hiding hints.
	var s *gen.Spec
	switch rapid.IntRange(0, 4).Draw(t, "bottom") {
	case 0:
		s = g.LeafOf(t, "unimpl")
	case 1:
		s = g.LeafOf(t, "assertf")
	case 2:
		// hidden sub-tree carrying hints: must not contribute
		h := g.WrapOf(t, "hint", g.WrapOf(t, "detail", reg.LeafOf(t, "goerr")))
		s = g.WrapOf(t, rapid.SampledFrom([]string{"handled", "handledmsg", "handleassert", "assertwrap"}).Draw(t, "barrier"), h)
	default:
		s = reg.LeafOf(t, rapid.SampledFrom([]string{"new", "goerr", "pkgnew"}).Draw(t, "leaf"))
	}
	n := rapid.IntRange(0, maxL).Draw(t, "layers")
	for i := 0; i < n; i++ {
		k := rapid.SampledFrom(annot).Draw(t, "annot")
		if rapid.IntRange(0, 7).Draw(t, "other") == 0 {
			k = rapid.SampledFrom([]string{"wrap", "stack", "secondary", "mark", "goerrorf", "safedetails", "uwrapcause", "uwrapcause", "uwrapnofmt", "pkgstack"}).Draw(t, "otherkind")
		}
		gg := g
		if k == "uwrapcause" || k == "uwrapnofmt" || k == "goerrorf" || k == "wrap" {
			gg = reg // message-bearing wrappers get non-empty regular messages
		}
		w := gg.WrapOf(t, k, s)
		for j := range w.X {
			// secondary / mark sub-errors carrying hints: must not contribute
			w.X[j] = g.WrapOf(t, "hint", reg.LeafOf(t, "goerr"))
		}
		if k == "tags" {
			// tag keys must be non-empty for logtags
			for j := 0; j < len(w.S); j += 2 {
				if w.S[j] == "" {
					w.S[j] = "k"
				}
			}
		}
		s = w
	}
	c := &pbt.Case{Spec: s}
	// Annotations survive transfer (C11), so the same lists are expected
	// after a hop - except what an unregistered user type contributes.
	if !s.Has("uhinter") {
		c.SetInt("hops", rapid.IntRange(0, 1).Draw(t, "hops"))
	}
	return c
}

func check(c *pbt.Case, r *pbt.R) {
	e := gen.Build(c.Spec)
	if c.Int("hops") > 0 && !c.Spec.Has("uhinter") {
		e = wire.Hops(e, c.Int("hops"))
	}
	ls := gen.Chain(c.Spec)
	// Model: innermost to outermost.
	var hints, details []string
	seen := map[string]bool{}
	repeats, empties := 0, 0
	for j := len(ls) - 1; j >= 0; j-- {
		if h := ls[j].Hint; h != "" {
			if !seen[h] {
				seen[h] = true
				hints = append(hints, h)
			} else {
				repeats++
			}
		} else if ls[j].Typ == "*hintdetail.withHint" || ls[j].Typ == "*gen.UWrapHinter" {
			empties++
		}
		if d := ls[j].Detail; d != "" {
			details = append(details, d)
		} else if ls[j].Typ == "*hintdetail.withDetail" {
			empties++
		}
	}
	// Outermost first.
	var links [][2]string
	var tags []string
	keys := map[string]bool{}
	for _, l := range ls {
		if l.Link != nil {
			links = append(links, *l.Link)
		}
		if len(l.Tags) > 0 {
			for _, t := range l.Tags {
				tags = append(tags, t[0]+"="+t[1])
			}
			tags = append(tags, ";")
		}
		for _, k := range l.Keys {
			keys[k] = true
		}
	}
	j := func(a []string) string { return strings.Join(a, "\x00") }
	if got := errors.GetAllHints(e); j(got) != j(hints) {
		r.Failf("GetAllHints differs from the model (innermost first, first occurrence wins)", "got  %q\nwant %q\nspec %s", got, hints, c.Spec)
	}
	if got := errors.GetAllDetails(e); j(got) != j(details) {
		r.Failf("GetAllDetails differs from the model (innermost first, no de-duplication, non-empty)", "got  %q\nwant %q\nspec %s", got, details, c.Spec)
	}
	if got, want := errors.FlattenHints(e), strings.Join(hints, "\n--\n"); got != want {
		r.Failf("FlattenHints is not the hints joined by a '--' line", "got  %q\nwant %q\nspec %s", got, want, c.Spec)
	}
	if got, want := errors.FlattenDetails(e), strings.Join(details, "\n--\n"); got != want {
		r.Failf("FlattenDetails is not the details joined by a '--' line", "got  %q\nwant %q\nspec %s", got, want, c.Spec)
	}
	var gotLinks [][2]string
	for _, l := range errors.GetAllIssueLinks(e) {
		gotLinks = append(gotLinks, [2]string{l.IssueURL, l.Detail})
	}
	if fmt.Sprint(gotLinks) != fmt.Sprint(links) {
		r.Failf("GetAllIssueLinks differs from the model (outermost first)", "got  %q\nwant %q\nspec %s", gotLinks, links, c.Spec)
	}
	if got := obs.Tags(e); j(got) != j(tags) {
		r.Failf("GetContextTags differs from the model (outermost first)", "got  %q\nwant %q\nspec %s", got, tags, c.Spec)
	}
	gotKeys := append([]string(nil), errors.GetTelemetryKeys(e)...)
	sort.Strings(gotKeys)
	var wantKeys []string
	for k := range keys {
		wantKeys = append(wantKeys, k)
	}
	sort.Strings(wantKeys)
	if j(gotKeys) != j(wantKeys) {
		r.Failf("GetTelemetryKeys is not the set union of all keys", "got  %q\nwant %q\nspec %s", gotKeys, wantKeys, c.Spec)
	}
	if repeats > 0 || empties > 0 {
		r.NonTrivial()
	}
	r.St.CountN("model layers", len(ls))
	r.St.CountN("hops", c.Int("hops"))
	r.St.CountN("repeated hints", repeats)
	r.St.CountN("empty hints/details", empties)
	r.St.CountN("hints", len(hints))
	r.St.CountN("issue links", len(links))
}

var prop = &pbt.Prop{ID: "C19", Part: "aggregation", Draw: draw, Check: check}

func TestProp(t *testing.T) { pbt.Run(t, prop) }
