//go:build verif

// C01 — error text and cause-tree structure survive network transfer;
// no drift of the wire message from the first hop on.
package c01

import (
	"bytes"
	"strings"
	"testing"

	"pgregory.net/rapid"

	"verif/gen"
	"verif/obs"
	"verif/pbt"
	"verif/wire"
)

func TestMain(m *testing.M) { pbt.Main(m) }

var prop = &pbt.Prop{
	ID:   "C01",
	Part: "roundtrip",
	Draw: func(t *rapid.T) *pbt.Case {
		maxB, maxK := 12, 3
		if pbt.Thorough() {
			maxB, maxK = 24, 5
		}
		c := &pbt.Case{}
		c.Spec = gen.Draw(t, gen.Regular(), rapid.IntRange(1, maxB).Draw(t, "budget"))
		// (empty strings where they have a documented meaning: the prefix of
		// WithMessage / Wrap, hints, details)
		gen.SprinkleEmpty(t, c.Spec)
		c.SetInt("hops", rapid.IntRange(2, maxK).Draw(t, "hops"))
		return c
	},
	Valid: func(c *pbt.Case) bool { return gen.SpecRegularOrEmpty(c.Spec) && c.Int("hops") >= 1 },
	Check: check,
}

func check(c *pbt.Case, r *pbt.R) {
	e0 := gen.Build(c.Spec)
	want := obs.Shape(e0).Str(false)
	e := e0
	var wires [][]byte
	k := c.Int("hops")
	// One more encoding than hops, so that w_k+1 exists for the last hop.
	for i := 1; i <= k+1; i++ {
		var w []byte
		e, w = wire.Hop(e)
		wires = append(wires, w)
		if i > k {
			break
		}
		if got := obs.Shape(e).Str(false); got != want {
			r.Failf("shape or text differs after transfer",
				"hop %d: spec %s\nwant:\n%s\ngot:\n%s\ntypes before:\n%s\ntypes after:\n%s",
				i, c.Spec, want, got, obs.Shape(e0).Str(true), obs.Shape(e).Str(true))
		}
	}
	// Drift: w_{i+1} == w_i for i >= 2 exactly; w_2 == w_1 modulo the
	// reportable payload of barrier leaves (it embeds a %+v rendering
	// of the hidden error, which changes once that error has been
	// re-materialised; property C11 states the same carve-out).
	for i := 1; i+1 < len(wires); i++ {
		if !bytes.Equal(wires[i], wires[i+1]) {
			r.Failf("wire drift after the second hop", "w%d != w%d: spec %s\n%s\n----\n%s", i+1, i+2, c.Spec, wire.Text(wires[i]), wire.Text(wires[i+1]))
		}
	}
	if len(wires) > 1 && !bytes.Equal(wire.BlankBarrierReportables(wires[0]), wire.BlankBarrierReportables(wires[1])) {
		r.Failf("wire drift between first and second hop", "w1 != w2: spec %s\n%s\n----\n%s", c.Spec, wire.Text(wires[0]), wire.Text(wires[1]))
	}

	// Classification.
	ls := 0
	for _, n := range c.Spec.Nodes() {
		ls += len(gen.Chain1(n))
	}
	feat := c.Spec.Has(gen.MultiKinds...) || hasColonOrNewline(c.Spec) || prefixOverFull(c.Spec) ||
		c.Spec.Has("ospath", "oslink", "ossyscall", "netop", "goerrorf", "pkgmsg", "pkgwrap", "uwrapnofmt", "uwrapcause", "uwrapformatter", "uwrapfmtold")
	if ls >= 3 && feat {
		r.NonTrivial()
	}
	r.St.CountN("spec nodes", c.Spec.Size())
	r.St.CountN("hops", k)
	for kind := range c.Spec.Kinds() {
		r.Count("kinds", kind)
	}
	if c.Spec.Has(gen.MultiKinds...) {
		r.Count("features", "multi-cause")
	}
	if c.Spec.Has(gen.BarrierKinds...) {
		r.Count("features", "barrier")
	}
}

func hasColonOrNewline(s *gen.Spec) bool {
	for _, n := range s.Nodes() {
		for _, x := range n.S {
			if strings.Contains(x, ": ") || strings.Contains(x, "\n") {
				return true
			}
		}
	}
	return false
}

// prefixOverFull: a prefix-type wrapper directly over a wrapper that
// owns its full message.
func prefixOverFull(s *gen.Spec) bool {
	for _, n := range s.Nodes() {
		if n.C == nil {
			continue
		}
		a, b := gen.Chain1(n), gen.Chain1(n.C)
		if len(a) > 0 && len(b) > 0 && a[len(a)-1].Role == gen.Prefix && b[0].Role == gen.Full {
			return true
		}
	}
	return false
}

func TestProp(t *testing.T) { pbt.Run(t, prop) }
