//go:build verif

// C11 — annotations survive network transfer between processes that
// know the types.
package c11

import (
	"runtime"
	"testing"

	"pgregory.net/rapid"

	"verif/gen"
	"verif/obs"
	"verif/pbt"
	"verif/wire"
)

func TestMain(m *testing.M) { pbt.Main(m) }

var annotationKinds = []string{"hint", "detail", "safedetails", "telemetry", "domain", "issuelink", "tags", "assertion",
	"assertf", "unimpl", "httpcode", "grpccode", "handleddomain", "handleddomainmsg", "domhandled", "domnew", "handleassert", "assertwrap"}

var stackKinds = []string{"new", "newf", "assertf", "wrap", "wrapf", "stack", "handleassert", "assertwrap", "newfw", "newfwsuffix", "join", "pkgnew", "pkgstack", "pkgwrap"}

var errnoSentinels = []string{"enoent", "eacces", "eexist", "etimedout", "eagain"}

func draw(foreign bool) func(t *rapid.T) *pbt.Case {
	return func(t *rapid.T) *pbt.Case {
		maxB, maxK := 12, 3
		if pbt.Thorough() {
			maxB, maxK = 24, 5
		}
		c := &pbt.Case{}
		sg := gen.Hostile()
		alpha := rapid.SampledFrom([]string{"hostile", "hostile", "regular"}).Draw(t, "alphabet")
		if alpha == "regular" {
			sg = gen.Regular()
		}
		c.SetStr("alphabet", alpha)
		c.Spec = gen.Default(sg).Boost(4, annotationKinds...).Draw(t, rapid.IntRange(1, maxB).Draw(t, "budget"))
		gen.SprinkleRepeats(t, c.Spec)
		c.SetInt("hops", rapid.IntRange(1, maxK).Draw(t, "hops"))
		if foreign {
			// Construct the feature: put an errno at one leaf position.
			var leaves []**gen.Spec
			for _, sl := range gen.Slots(&c.Spec) {
				if (*sl).IsLeafSpec() {
					leaves = append(leaves, sl)
				}
			}
			sl := leaves[rapid.IntRange(0, len(leaves)-1).Draw(t, "errnopos")]
			*sl = &gen.Spec{K: "sentinel", S: []string{rapid.SampledFrom(errnoSentinels).Draw(t, "errno")}}
			c.SetInt("foreign", 1)
			c.SetStr("platform", rapid.SampledFrom([]string{"plan9:mips", runtime.GOOS + ":otherarch", "otheros:" + runtime.GOARCH}).Draw(t, "platform"))
		}
		return c
	}
}

func check(c *pbt.Case, r *pbt.R) {
	e0 := gen.Build(c.Spec)
	foreign := c.Int("foreign") == 1
	opt := obs.Opt{}
	if foreign {
		// On another platform the errno layer legitimately has another
		// Go type (its safe details name that type); everything else,
		// the OS predicates in particular, must be kept.
		opt.NoSafeDetails = true
	}
	want := obs.Snapshot(e0, opt)
	e := e0
	for i := 1; i <= c.Int("hops"); i++ {
		if foreign && i == 1 {
			enc := wire.Unmarshal(wire.Encode(e))
			plat := c.S["platform"]
			if plat == "" {
				plat = "plan9:mips"
			}
			if wire.ForeignPlatformAs(&enc, plat) == 0 {
				// The errno sits behind a layer that does not transfer its
				// payload structurally (e.g. an error-typed format argument).
				r.Count("foreign", "errno not on the wire")
			}
			e = wire.Decode(wire.Marshal(&enc))
		} else {
			e, _ = wire.Hop(e)
		}
		got := obs.Snapshot(e, opt)
		if d, differs := obs.DiffKV(want, got); differs {
			sig := "accessor differs after transfer: " + obs.DiffKey(want, got)
			if foreign {
				sig = "accessor differs after a foreign-platform hop: " + obs.DiffKey(want, got)
				if i > 1 {
					sig = "accessor differs at a later hop after a foreign-platform hop: " + obs.DiffKey(want, got)
				}
			}
			r.Failf(sig, "hop %d: %s\nspec %s", i, d, c.Spec)
		}
	}
	kinds := c.Spec.Kinds()
	na := 0
	for _, k := range annotationKinds {
		if kinds[k] > 0 {
			na++
		}
	}
	if na >= 3 && c.Spec.Has(stackKinds...) {
		r.NonTrivial()
	}
	r.St.CountN("annotation kinds", na)
	r.St.CountN("hops", c.Int("hops"))
	r.Count("alphabet", c.S["alphabet"])
	if foreign {
		r.Count("foreign platform", c.S["platform"])
	}
	for k := range kinds {
		r.Count("kinds", k)
	}
}

var prop = &pbt.Prop{ID: "C11", Part: "annotations", Draw: draw(false), Check: check}

var propForeign = &pbt.Prop{ID: "C11", Part: "foreign-platform", Draw: draw(true), Check: check}

func TestProp(t *testing.T)    { pbt.Run(t, prop) }
func TestForeign(t *testing.T) { pbt.Run(t, propForeign) }
