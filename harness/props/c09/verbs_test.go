//go:build verif

package c09

import (
	"fmt"
	"reflect"
	"strings"
	"testing"

	"github.com/cockroachdb/errors"
	"pgregory.net/rapid"

	"verif/gen"
	"verif/pbt"
	"verif/ref"
	"verif/wire"
)

func isLibType(e error) bool {
	tn := fmt.Sprintf("%T", e)
	for _, p := range []string{"*errutil.", "*withstack.", "*hintdetail.", "*issuelink.", "*telemetrykeys.", "*domains.", "*contexttags.", "*assert.", "*secondary.", "*barriers.", "*markers.", "*join.", "*safedetails.", "*errbase.opaque", "*exthttp.", "*extgrpc."} {
		if strings.HasPrefix(tn, p) {
			return true
		}
	}
	return false
}

var verbs = []string{"v", "s", "q", "x", "X", "d", "t", "e", "c", "U", "b", "o", "f", "g"}

func drawVerbs(t *rapid.T) *pbt.Case {
	maxB := 8
	if pbt.Thorough() {
		maxB = 16
	}
	c := &pbt.Case{}
	g := gen.Default(gen.Regular()).Boost(3, "uleaffmtold", "uwrapfmtold", "pkgnew", "pkgwrap", "pkgstack", "uleafformatter", "uwrapformatter", "uleafsafefmt")
	c.Spec = g.Draw(t, rapid.IntRange(1, maxB).Draw(t, "budget"))
	c.SetInt("decoded", rapid.IntRange(0, 1).Draw(t, "decoded"))
	flags := ""
	for _, f := range []string{"-", "#", " ", "0"} {
		if rapid.IntRange(0, 3).Draw(t, "flag"+f) == 0 {
			flags += f
		}
	}
	wp := ""
	if rapid.Bool().Draw(t, "w") {
		wp += fmt.Sprint(rapid.IntRange(0, 60).Draw(t, "width"))
	}
	if rapid.Bool().Draw(t, "p") {
		wp += "." + fmt.Sprint(rapid.IntRange(0, 40).Draw(t, "prec"))
	}
	verb := rapid.SampledFrom(verbs).Draw(t, "verb")
	// '+' combined with v means "verbose" (the verbose-structure part);
	// with every other verb it is an ordinary fmt flag.
	if verb != "v" && rapid.IntRange(0, 3).Draw(t, "flag+") == 0 {
		flags = "+" + flags
	}
	// ... except next to '#': fmt documents that %#v is the Go-syntax
	// representation, with or without '+'.
	if verb == "v" && strings.Contains(flags, "#") && rapid.Bool().Draw(t, "plus-with-sharp") {
		if rapid.Bool().Draw(t, "plus-first") {
			flags = "+" + flags
		} else {
			flags += "+"
		}
	}
	c.SetStr("format", "%"+flags+wp+verb)
	return c
}

func checkVerbs(c *pbt.Case, r *pbt.R) {
	e0 := gen.Build(c.Spec)
	if c.Int("decoded") == 1 {
		e0, _ = wire.Hop(e0)
	}
	format := c.S["format"]
	verb := format[len(format)-1:]
	flagged := len(format) > 2
	msg := e0.Error()
	type target struct {
		name string
		v    interface{}
	}
	targets := []target{{"Formattable", errors.Formattable(e0)}}
	if isLibType(e0) {
		targets = append(targets, target{"library type", e0})
	}
	for _, tg := range targets {
		got := fmt.Sprintf(format, tg.v)
		var want string
		switch verb {
		case "v", "s", "q", "x", "X":
			if verb == "v" && strings.Contains(format, "#") {
				// Go-syntax dump: must name the Go type and must not panic.
				// (only the plain %#v is specified; '#' combined with other
				// flags, width or precision must merely not panic)
				tn := fmt.Sprintf("%T", e0)
				tn = strings.TrimPrefix(tn, "*")
				// (fmt's Go syntax names the type of pointers and structs; a named
				// string or integer type is printed as a bare literal)
				k := reflect.ValueOf(e0).Kind()
				named := k == reflect.Ptr || k == reflect.Struct
				if strings.Contains(got, "PANIC=") || got == "" || (format == "%#v" && named && !strings.Contains(got, tn)) {
					r.Failf("%#v is not a Go-syntax dump of the error", "%s via %s: %.300q\nspec %s", format, tg.name, got, c.Spec)
				}
				if format == "%+#v" || format == "%#+v" {
					if dump := fmt.Sprintf("%#v", tg.v); got != dump {
						r.Failf("%#v is not a Go-syntax dump of the error", "%s via %s prints another text than %%#v:\n got %.300q\nwant %.300q\nspec %s", format, tg.name, got, dump, c.Spec)
					}
				}
				continue
			}
			want = fmt.Sprintf(format, msg)
		default:
			want = "%!" + verb + "(" + fmt.Sprintf("%T", e0) + ")"
		}
		if got != want {
			class := "plain"
			if flagged {
				class = "flag/width/precision variant"
			}
			what := "what fmt prints for the Error() string"
			if verb != "v" && verb != "s" && verb != "q" && verb != "x" && verb != "X" {
				what = "fmt's %!verb(type) notation"
			}
			r.Failf("%"+verb+" ("+class+") does not print "+what, "%s via %s (%T):\n got %q\nwant %q\nspec %s", format, tg.name, e0, got, want, c.Spec)
		}
	}
	if flagged && len(gen.Chain(c.Spec)) >= 3 {
		r.NonTrivial()
	}
	r.Count("verb", verb)
	r.Count("flagged", fmt.Sprint(flagged))
	r.Count("targets", fmt.Sprint(len(targets)))
	r.Count("decoded", fmt.Sprint(c.Int("decoded")))
}

var verbsProp = &pbt.Prop{ID: "C09", Part: "verbs", Draw: drawVerbs, Check: checkVerbs,
	Valid: func(c *pbt.Case) bool { return gen.SpecRegular(c.Spec) && strings.HasPrefix(c.S["format"], "%") }}

func TestVerbs(t *testing.T) { pbt.Run(t, verbsProp) }

// ---------- the structure of %+v ----------

func drawVerbose(t *rapid.T) *pbt.Case {
	maxB := 10
	if pbt.Thorough() {
		maxB = 20
	}
	c := &pbt.Case{}
	g := gen.Default(gen.Regular())
	g.WMulti = 2
	c.Spec = g.Draw(t, rapid.IntRange(1, maxB).Draw(t, "budget"))
	c.SetInt("decoded", rapid.IntRange(0, 1).Draw(t, "decoded"))
	return c
}

// ownDetail is what the entry of each library layer must contain.
func ownDetail(l gen.Layer, decoded bool) []string {
	switch l.Typ {
	case "*withstack.withStack":
		if l.Spec.K == "stackdeep" || l.Spec.K == "stackn" { // captured no frame, or only frames of the runtime (assembly) and the test runner
			if decoded {
				return []string{"(opaque error wrapper)", "withstack.withStack"}
			}
			return []string{"attached stack trace"}
		}
		if decoded {
			// No decoder is registered for withStack: it always arrives as
			// an opaque wrapper whose entry shows the stack as text.
			return []string{"(opaque error wrapper)", "withstack.withStack", ".go:"}
		}
		return []string{"attached stack trace", "-- stack trace:", ".go:"}
	case "*assert.withAssertionFailure":
		return []string{"assertion failure"}
	case "*barriers.barrierErr":
		return []string{"-- cause hidden behind barrier"}
	case "*secondary.withSecondaryError":
		return []string{"secondary error attachment"}
	case "*markers.withMark":
		return []string{"forced error mark"}
	case "*hintdetail.withHint":
		return []string{firstLine(l.Hint)}
	case "*hintdetail.withDetail":
		return []string{firstLine(l.Detail)}
	case "*issuelink.withIssueLink", "*issuelink.unimplementedError":
		var out []string
		if l.Typ == "*issuelink.unimplementedError" {
			out = append(out, "unimplemented")
		}
		if l.Link[0] != "" {
			out = append(out, "issue: "+firstLine(l.Link[0]))
		}
		if l.Link[1] != "" {
			out = append(out, "detail: "+firstLine(l.Link[1]))
		}
		return out
	case "*telemetrykeys.withTelemetry":
		return []string{"keys: ["}
	case "*domains.withDomain":
		return []string{firstLine(l.Domain)}
	case "*contexttags.withContext":
		if decoded && len(l.Tags) == 0 {
			// a layer without any tag is received as an opaque wrapper
			// (its decoder declines an empty payload)
			return []string{"(opaque error wrapper)", "contexttags.withContext"}
		}
		return []string{"tags: ["}
	case "*exthttp.withHTTPCode":
		return []string{fmt.Sprintf("http code: %d", l.HTTP)}
	case "*extgrpc.withGrpcCode":
		return []string{"gRPC code: "}
	}
	return nil
}

func firstLine(s string) string {
	if i := strings.IndexByte(s, '\n'); i >= 0 {
		return s[:i]
	}
	return s
}

func checkVerbose(c *pbt.Case, r *pbt.R) {
	e := gen.Build(c.Spec)
	vis, err := gen.Visible(c.Spec, e)
	if err != nil {
		r.Failf("model and implementation disagree on the layer structure", "%v", err)
		return
	}
	// The model layer of every object (by position in display order).
	decoded := c.Int("decoded") == 1
	if decoded {
		e, _ = wire.Hop(e)
	}
	out := fmt.Sprintf("%+v", errors.Formattable(e))
	if isLibType(e) {
		if direct := fmt.Sprintf("%+v", e); direct != out {
			r.Failf("%+v of a library type differs from %+v through Formattable", "spec %s\n%s\n-----\n%s", c.Spec, direct, out)
		}
	}
	msg := e.Error()
	if !strings.Contains(msg, "\n") {
		if !strings.HasPrefix(out, msg+"\n(1)") {
			r.Failf("%+v does not start with the Error() text", "spec %s\nmsg %q\nout %.400q", c.Spec, msg, out)
		}
	} else if !strings.HasPrefix(out, firstLine(msg)) {
		r.Failf("%+v does not start with the first line of the Error() text", "spec %s\nmsg %q\nout %.400q", c.Spec, msg, out)
	}
	nodes := ref.DisplayOrder(e)
	pv, perr := ref.ParseVerbose(out)
	if perr != nil {
		r.Failf("%+v does not have the documented structure", "%v\nspec %s\n%s", perr, c.Spec, out)
		return
	}
	var wantTypes strings.Builder
	wantTypes.WriteString("Error types:")
	for j, n := range nodes {
		fmt.Fprintf(&wantTypes, " (%d) %T", j+1, n.Err)
	}
	if pv.Types != wantTypes.String() {
		r.Failf("the 'Error types' line does not name the type of every layer in entry order", "got  %s\nwant %s\nspec %s", pv.Types, wantTypes.String(), c.Spec)
	}
	if len(pv.Entries) != len(nodes) {
		r.Failf("%+v does not have exactly one numbered entry per visible layer", "entries %d layers %d\nspec %s\n%s", len(pv.Entries), len(nodes), c.Spec, out)
		return
	}
	// Map display order to model layers (local errors only: same
	// objects; decoded: same positions).
	localOrder := ref.DisplayOrder(gen.Build(c.Spec))
	_ = localOrder
	modelOf := map[int]gen.Layer{}
	{
		// vis is in pre-order (first branch first); display order is
		// node, then sub-trees last branch first. Recompute by walking.
		var walk func(spec *gen.Spec) []gen.Layer
		walk = func(spec *gen.Spec) []gen.Layer {
			ls := gen.Chain(spec)
			var res []gen.Layer
			for _, l := range ls {
				res = append(res, l)
				for k := len(l.Multi) - 1; k >= 0; k-- {
					res = append(res, walk(l.Multi[k])...)
				}
			}
			return res
		}
		for i, l := range walk(c.Spec) {
			modelOf[i] = l
		}
	}
	_ = vis
	indentByDepth := map[int]int{}
	for j, en := range pv.Entries {
		if en.Num != j+1 {
			r.Failf("%+v entries are not numbered consecutively", "entry %d has number %d\nspec %s\n%s", j+1, en.Num, c.Spec, out)
		}
		n := nodes[j]
		w := len([]rune(en.Indent))
		if !n.UnderMulti {
			if w != 0 {
				r.Failf("%+v indents an entry that has no multi-cause ancestor", "entry %d indent %q\nspec %s\n%s", j+1, en.Indent, c.Spec, out)
			}
		} else {
			if prev, ok := indentByDepth[n.Depth]; ok && prev != w {
				r.Failf("%+v indents entries of the same depth differently", "entry %d\nspec %s\n%s", j+1, c.Spec, out)
			}
			indentByDepth[n.Depth] = w
		}
		if l, ok := modelOf[j]; ok && len(modelOf) == len(nodes) {
			for _, need := range ownDetail(l, decoded) {
				if !strings.Contains(en.Text, need) {
					r.Failf("the entry of a library wrapper lacks its own detail: "+l.Typ, "entry %d lacks %q:\n%s\nspec %s", j+1, need, en.Text, c.Spec)
				}
			}
		}
	}
	for d1, w1 := range indentByDepth {
		for d2, w2 := range indentByDepth {
			if d1 < d2 && w1 >= w2 {
				r.Failf("%+v indentation of multi-cause branches does not grow with depth", "depth %d width %d, depth %d width %d\nspec %s\n%s", d1, w1, d2, w2, c.Spec, out)
			}
		}
	}
	if len(nodes) >= 3 && c.Spec.Has(gen.MultiKinds...) || len(nodes) >= 5 {
		r.NonTrivial()
	}
	r.St.CountN("entries", len(nodes))
	r.Count("decoded", fmt.Sprint(decoded))
	if c.Spec.Has(gen.MultiKinds...) {
		r.Count("features", "multi-cause")
	}
}

var verboseProp = &pbt.Prop{ID: "C09", Part: "verbose-structure", Draw: drawVerbose, Check: checkVerbose,
	Valid: func(c *pbt.Case) bool { return gen.SpecRegular(c.Spec) }}

func TestVerbose(t *testing.T) { pbt.Run(t, verboseProp) }
