//go:build verif

package c09

import (
	"fmt"
	"testing"

	"github.com/cockroachdb/errors"

	"verif/pbt"
)

// TestNilFormattable: "other verbs give fmt's %!verb(type) notation"
// also for the one value without a type: Formattable(nil) under an
// unsupported verb prints what fmt prints for a nil error. (Under %v,
// %s, %q, %x the unchanged library dereferences the nil error; nothing
// is claimed there.)
func TestNilFormattable(t *testing.T) {
	st := pbt.NewStats("nil-formattable")
	defer st.Write()
	p := &pbt.Prop{ID: "C09", Part: "nil-formattable"}
	n := 0
	for _, verb := range []string{"d", "t", "e", "c", "U", "b", "o", "f", "g"} {
		for _, flags := range []string{"", "-", "#", " ", "0", "+", "-#", "+#0"} {
			for _, wp := range []string{"", "7", ".3", "12.4"} {
				format := "%" + flags + wp + verb
				st.Eval()
				n++
				var nilErr error
				want := fmt.Sprintf(format, nilErr)
				got := ""
				func() {
					defer func() {
						if x := recover(); x != nil {
							got = fmt.Sprintf("PANIC: %v", x)
						}
					}()
					got = fmt.Sprintf(format, errors.Formattable(nil))
				}()
				c := &pbt.Case{}
				c.SetStr("format", format)
				st.NT(uint64(n), func() interface{} { return c })
				if got != want {
					pbt.Fail(t, p, st, c, &pbt.Failure{Sig: "an unsupported verb applied to Formattable(nil) does not print fmt's notation for nil", Msg: fmt.Sprintf("%s: got %q want %q", format, got, want)})
					return
				}
			}
		}
	}
	st.Exhaustive = true
}
