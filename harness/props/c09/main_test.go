//go:build verif

// C09 — formatting verbs are mutually consistent.
package c09

import (
	"testing"

	"verif/pbt"
)

func TestMain(m *testing.M) { pbt.Main(m) }
