//go:build verif

package c09

import (
	"bufio"
	"bytes"
	"encoding/json"
	"fmt"
	"os"
	"os/exec"
	"path/filepath"
	"sort"
	"strings"
	"testing"

	"verif/pbt"
	"verif/scan"
)

// The normalisation added to the repository's own datadriven test
// (through go test -overlay, /repo is not touched): the golden files
// were produced by a toolchain that names package-level closures
// "glob..funcN"; this toolchain calls them "init.funcN". Nothing
// else is normalised beyond the repository's own fmtClean.
const normSrc = `

var verifGlobA = regexp.MustCompile(` + "`" + `fmttests\.init\.func\d+(\.\d+)*(\\n)?` + "`" + `)
var verifGlobE = regexp.MustCompile(` + "`" + `fmttests\.glob\.\.(\.funcNN\.\.\.|func\d+(\.\d+)*(\\n)?)` + "`" + `)
var verifGlobS = regexp.MustCompile(` + "`" + `fmttests\.(glob\.|init)\)\.\.\.funcNN\.\.\.` + "`" + `)

func verifNormS(s string) string {
	s = verifGlobS.ReplaceAllString(s, "fmttests.SCLOSURE")
	s = verifGlobA.ReplaceAllString(s, "fmttests.CLOSURE")
	s = verifGlobE.ReplaceAllString(s, "fmttests.CLOSURE")
	return s
}

func verifNorm(actual, expected string) string {
	if verifNormS(actual) == verifNormS(expected) {
		return expected
	}
	return verifNormS(actual)
}
`

var corpusProp = &pbt.Prop{ID: "C09", Part: "golden-corpus", Check: func(c *pbt.Case, r *pbt.R) {
	res, _, err := runCorpus(c.S["file"])
	if err != nil {
		panic(err)
	}
	for f, out := range res {
		if out != "" {
			r.Failf("rendering differs from the repository's vetted reference: "+f, "%s", out)
		}
	}
}}

// runCorpus re-renders the repository's curated corpus with the
// repository's own commands and compares with the vetted goldens.
// It returns, per corpus file, "" (match) or the test output.
func runCorpus(only string) (map[string]string, int, error) {
	repo := scan.Repo()
	src, err := os.ReadFile(filepath.Join(repo, "fmttests", "datadriven_test.go"))
	if err != nil {
		return nil, 0, err
	}
	const hook = "return fmtClean(buf.String())"
	if n := strings.Count(string(src), hook); n != 1 {
		return nil, 0, fmt.Errorf("cannot install the normalisation hook: %d occurrences of %q", n, hook)
	}
	patched := strings.Replace(string(src), hook, "return verifNorm(fmtClean(buf.String()), d.Expected)", 1) + normSrc
	wd, _ := os.Getwd()
	dir, err := os.MkdirTemp(wd, "overlay")
	if err != nil {
		return nil, 0, err
	}
	defer os.RemoveAll(dir)
	pf := filepath.Join(dir, "datadriven_test.go")
	if err := os.WriteFile(pf, []byte(patched), 0o644); err != nil {
		return nil, 0, err
	}
	ov, _ := json.Marshal(map[string]map[string]string{"Replace": {filepath.Join(repo, "fmttests", "datadriven_test.go"): pf}})
	of := filepath.Join(dir, "overlay.json")
	if err := os.WriteFile(of, ov, 0o644); err != nil {
		return nil, 0, err
	}
	run := "^TestDatadriven$"
	if only != "" {
		run = "^TestDatadriven$/^" + only + "$"
	}
	cmd := exec.Command("go", "test", "-overlay", of, "-count=1", "-vet=off", "-json", "-run", run, "./fmttests/")
	cmd.Dir = repo
	cmd.Env = append(os.Environ(), "GOFLAGS=-mod=mod", "GOPROXY=off", "GOSUMDB=off", "GOTOOLCHAIN=local")
	var out bytes.Buffer
	cmd.Stdout = &out
	cmd.Stderr = &out
	_ = cmd.Run()
	res := map[string]string{}
	outputs := map[string]*strings.Builder{}
	sc := bufio.NewScanner(&out)
	sc.Buffer(make([]byte, 1<<20), 1<<26)
	sawTop := false
	for sc.Scan() {
		var ev struct {
			Action, Test, Output string
		}
		if json.Unmarshal(sc.Bytes(), &ev) != nil {
			continue
		}
		if ev.Test == "TestDatadriven" && (ev.Action == "pass" || ev.Action == "fail") {
			sawTop = true
		}
		if !strings.HasPrefix(ev.Test, "TestDatadriven/") {
			continue
		}
		f := strings.TrimPrefix(ev.Test, "TestDatadriven/")
		if strings.Contains(f, "/") {
			continue
		}
		switch ev.Action {
		case "output":
			if outputs[f] == nil {
				outputs[f] = &strings.Builder{}
			}
			if outputs[f].Len() < 6000 {
				outputs[f].WriteString(ev.Output)
			}
		case "pass":
			res[f] = ""
		case "fail":
			res[f] = outputs[f].String()
			if res[f] == "" {
				res[f] = "failed"
			}
		}
	}
	if !sawTop || len(res) == 0 {
		return nil, 0, fmt.Errorf("the corpus test did not run:\n%.3000s", out.String())
	}
	// Count the run entries of the corpus.
	entries := 0
	files, _ := filepath.Glob(filepath.Join(repo, "fmttests", "testdata", "format", "*"))
	for _, f := range files {
		b, _ := os.ReadFile(f)
		for _, l := range strings.Split(string(b), "\n") {
			if l == "run" {
				entries++
			}
		}
	}
	return res, entries, nil
}

// TestCorpus: the repository's curated leaf x wrapper corpus,
// re-rendered and compared with its vetted reference renderings.
func TestCorpus(t *testing.T) {
	if os.Getenv("VERIF_REPLAY") != "" {
		pbt.Run(t, corpusProp)
		return
	}
	st := pbt.NewStats("golden-corpus")
	defer st.Write()
	res, entries, err := runCorpus("")
	if err != nil {
		t.Fatalf("inconclusive: %v", err)
	}
	var files []string
	for f := range res {
		files = append(files, f)
	}
	sort.Strings(files)
	st.Evals = entries
	for i, f := range files {
		st.NT(uint64(i), func() interface{} { return "corpus file " + f })
		st.Count("corpus files", f)
		if res[f] != "" {
			c := &pbt.Case{}
			c.SetStr("file", f)
			pbt.Fail(t, corpusProp, st, c, &pbt.Failure{Sig: "rendering differs from the repository's vetted reference: " + f, Msg: res[f]})
		}
	}
	st.Notes = append(st.Notes, fmt.Sprintf("golden corpus: %d files, %d run entries re-rendered through go test -overlay", len(files), entries))
	st.Exhaustive = true
}
