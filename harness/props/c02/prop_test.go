//go:build verif

// C02 — error identity (Is) is invariant under network transfer,
// including hops through processes that do not know the types.
package c02

import (
	"fmt"
	"strings"
	"testing"

	"github.com/cockroachdb/errors"
	"pgregory.net/rapid"

	"verif/gen"
	"verif/obs"
	"verif/pbt"
	"verif/wire"
)

func TestMain(m *testing.M) { pbt.Main(m) }

func draw(t *rapid.T) *pbt.Case {
	maxB, maxK := 10, 3
	if pbt.Thorough() {
		maxB, maxK = 18, 4
	}
	str := gen.Regular()
	g := gen.Default(str).Boost(3, "sentinel", "mark", "risleaf", "domain", "ukeymarker")
	c := &pbt.Case{}
	c.Spec = g.Draw(t, rapid.IntRange(1, maxB).Draw(t, "budget"))
	gen.SprinkleEmpty(t, c.Spec)
	c.Aux = append(c.Aux, g.Draw(t, rapid.IntRange(1, 4).Draw(t, "budget2")))
	nodes := c.Spec.Nodes()
	for k := 0; k < 3; k++ {
		sub := nodes[rapid.IntRange(0, len(nodes)-1).Draw(t, "pick")]
		p, what := gen.Perturb(t, sub)
		c.Aux = append(c.Aux, p)
		c.SetStr(fmt.Sprintf("perturbation%d", k+1), what)
	}
	enc := errors.EncodeError(wire.Ctx, gen.Build(c.Spec))
	fams := wire.Families(&enc)
	k := rapid.IntRange(1, maxK).Draw(t, "hops")
	c.SetInt("hops", k)
	for i := 1; i <= k; i++ {
		var u []string
		switch rapid.SampledFrom([]string{"knowing", "knowing", "all", "some"}).Draw(t, "process") {
		case "all":
			u = append(u, fams...)
		case "some":
			for _, f := range fams {
				if rapid.Bool().Draw(t, "unk") {
					u = append(u, f)
				}
			}
		}
		if len(u) > 0 {
			c.SetList(fmt.Sprintf("unknown%d", i), u)
		}
	}
	return c
}

// transfer sends b through stage i (knowing or unknowing intermediary)
// and returns the bytes that leave that process.
func transfer(c *pbt.Case, i int, b []byte) []byte {
	out, _ := transferMid(c, i, b)
	return out
}

// transferMid also returns the error as the intermediary of stage i
// holds it (nil for a knowing stage).
func transferMid(c *pbt.Case, i int, b []byte) (out []byte, mid error) {
	u := c.L[fmt.Sprintf("unknown%d", i)]
	if len(u) == 0 {
		return wire.Encode(wire.Decode(b)), nil
	}
	out = wire.Through(b, u, func(m error) { mid = m })
	return out, mid
}

func check(c *pbt.Case, r *pbt.R) {
	e0 := gen.Build(c.Spec)
	vis, err := gen.Visible(c.Spec, e0)
	if err != nil {
		r.Failf("model and implementation disagree on the layer structure", "%v", err)
		return
	}
	type ref struct {
		n    gen.VNode
		from string
	}
	var refs []ref
	for _, v := range vis {
		refs = append(refs, ref{v, "node of e"})
	}
	for _, n := range gen.SentinelNames {
		vs, _ := gen.RefsOf(&gen.Spec{K: "sentinel", S: []string{n}})
		refs = append(refs, ref{vs[0], "sentinel"})
	}
	for i, a := range c.Aux {
		vs, err := gen.RefsOf(a)
		if err != nil {
			r.Failf("model and implementation disagree on the layer structure", "%v", err)
		}
		from := "perturbed copy"
		if i == 0 {
			from = "independent tree"
		}
		for _, v := range vs {
			refs = append(refs, ref{v, from})
		}
	}
	k := c.Int("hops")
	// e after hops 1..k (each evaluated at a knowing process).
	es := make([]error, k+1)
	mids := make([]error, k+1) // e as held by an unknowing intermediary
	f14f15 := false
	es[0] = e0
	b := wire.Encode(e0)
	unknowing := 0
	for i := 1; i <= k; i++ {
		if len(c.L[fmt.Sprintf("unknown%d", i)]) > 0 {
			unknowing++
		}
		b, mids[i] = transferMid(c, i, b)
		es[i] = wire.Decode(b)
		for _, f := range c.L[fmt.Sprintf("unknown%d", i)] {
			// F14 / F15 (known findings of C04): a process that does not know
			// barriers or gRPC status errors shows another text for them, and
			// the mark contains the text. Is is not evaluated inside such a
			// process (it is at every process after it).
			if strings.HasSuffix(f, "barriers.barrierErr") || strings.Contains(f, "status.") {
				// (and every later intermediary: the other text is baked into
				// the messages that process re-encodes for enclosing layers)
				f14f15 = true
			}
			// A process that does not know withMark cannot apply an explicit
			// mark (it travels in that type's payload): nothing is claimed
			// about Is inside such a process either.
			if strings.HasSuffix(f, "markers.withMark") {
				mids[i] = nil
			}
		}
		if f14f15 {
			mids[i] = nil
		}
	}
	nonIdentityMatch, nearMiss := false, false
	for _, rf := range refs {
		ro := rf.n.Obj
		b0, p := obs.SafeIs(e0, ro)
		if p != nil {
			r.Count("skipped", "Is panics locally (C08's subject)")
			continue
		}
		desc := func() string {
			return fmt.Sprintf("r = %s layer %d (%s) text %q, %s\ne = %s\nhops: %v %v %v %v", rf.n.Ls[0].Spec, rf.n.I, rf.n.Layer().Typ, rf.n.Text(), rf.from, c.Spec,
				c.L["unknown1"], c.L["unknown2"], c.L["unknown3"], c.L["unknown4"])
		}
		// The statement's exemption: a local match that exists only
		// through an Is method comparing object identity may disappear
		// once r has been transferred.
		methodOnly := b0 && !gen.ModelIs(vis, rf.n, false)
		if b0 && !methodOnly && !gen.Identical(e0, ro) {
			nonIdentityMatch = true
		}
		if !b0 && rf.from == "perturbed copy" {
			nearMiss = true
		}
		rb := wire.Encode(ro)
		for i := 1; i <= k; i++ {
			// only e transferred
			bi, p := obs.SafeIs(es[i], ro)
			if p != nil {
				r.Failf("Is panics after transfer", "hop %d: %v\n%s", i, p, desc())
			} else if bi != b0 {
				r.Failf(fmt.Sprintf("Is(e, r) changes when e is transferred: %v -> %v", b0, bi), "hop %d\n%s", i, desc())
			}
			// ... also inside a process that does not know e's types.
			if mids[i] != nil {
				if bm, p := obs.SafeIs(mids[i], ro); p != nil {
					r.Failf("Is panics after transfer", "hop %d (at the unknowing process): %v\n%s", i, p, desc())
				} else if bm != b0 && !(methodOnly && !bm) {
					r.Failf(fmt.Sprintf("Is(e, r) changes when e is transferred: %v -> %v", b0, bm), "hop %d, evaluated at the process that does not know the types\n%s", i, desc())
				}
			}
			// IsAny agrees, also with a nil reference listed first.
			if ia, p := obs.Try2(func() bool { return errors.IsAny(es[i], nil, ro) }); p != "" {
				r.Failf("IsAny panics after transfer", "hop %d: %v\n%s", i, p, desc())
			} else if ia != b0 {
				r.Failf(fmt.Sprintf("IsAny(e, nil, r) differs from Is(e, r) after transfer: %v vs %v", ia, b0), "hop %d\n%s", i, desc())
			}
			// r transferred through the same processes
			rb = transfer(c, i, rb)
			ri := wire.Decode(rb)
			both, p := obs.SafeIs(es[i], ri)
			if p != nil {
				r.Failf("Is panics after transfer", "hop %d (both transferred): %v\n%s", i, p, desc())
			} else if both != b0 && !(methodOnly && !both) {
				r.Failf(fmt.Sprintf("Is(e, r) changes when both are transferred: %v -> %v", b0, both), "hop %d\n%s", i, desc())
			}
			onlyR, p := obs.SafeIs(e0, ri)
			if p != nil {
				r.Failf("Is panics after transfer", "hop %d (r transferred): %v\n%s", i, p, desc())
			} else if onlyR != b0 && !(methodOnly && !onlyR) {
				r.Failf(fmt.Sprintf("Is(e, r) changes when r is transferred: %v -> %v", b0, onlyR), "hop %d\n%s", i, desc())
			}
			if methodOnly && (!both || !onlyR) {
				r.Count("exemption used", "identity-based Is method")
			}
		}
	}
	if nonIdentityMatch && nearMiss {
		r.NonTrivial()
	}
	r.St.CountN("hops", k)
	for _, n := range c.Spec.Nodes() {
		if n.K == "mark" && len(n.X[0].S) > 0 && n.X[0].S[0] == "" {
			r.Count("features", "Mark reference with the empty message")
		}
	}
	r.St.CountN("unknowing hops", unknowing)
	r.St.CountN("references per case", len(refs))
	for kind := range c.Spec.Kinds() {
		r.Count("kinds", kind)
	}
}

var prop = &pbt.Prop{ID: "C02", Part: "is-transfer", Draw: draw, Check: check,
	Valid: func(c *pbt.Case) bool {
		if !gen.SpecRegularOrEmpty(c.Spec) || c.Int("hops") < 1 {
			return false
		}
		for _, a := range c.Aux {
			if !gen.SpecRegularOrEmpty(a) {
				return false
			}
		}
		return true
	}}

func TestProp(t *testing.T) { pbt.Run(t, prop) }
