//go:build verif

// C08 — Is/IsAny are total, reflexive, monotone and decide the
// documented mark equivalence.
package c08

import (
	"fmt"
	"strings"
	"testing"

	"github.com/cockroachdb/errors"
	"pgregory.net/rapid"

	"verif/gen"
	"verif/pbt"
)

func TestMain(m *testing.M) { pbt.Main(m) }

// The generator is biased towards the shapes the property names:
// types that are sometimes a leaf and sometimes a wrapper,
// non-comparable values, comparable wrappers around them.
func cfg(str gen.StrGen) *gen.Cfg {
	g := gen.Default(str).Boost(4, "uopt", "uoptleaf", "dnswrap", "dnsleaf", "uleafnc", "uwraptransparent", "mark", "sentinel")
	// also a multi-error type that has a Cause() method besides Unwrap() []error
	g = g.With("umulticauser", "umulticauser", "umultiis", "uzeroa", "uzeroa", "uzerob", "uzerob", "ucodedanon")
	g.WMulti = 2
	return g
}

var monotoneWrappers = []string{"wrap", "withmsg", "stack", "hint", "domain", "mark", "secondary", "goerrorf", "pkgwrap", "uwraptransparent", "uwrapcause", "uopt", "tags", "httpcode", "newfw", "ospath"}

func draw(t *rapid.T) *pbt.Case {
	maxB := 10
	if pbt.Thorough() {
		maxB = 20
	}
	str := gen.Regular()
	g := cfg(str)
	c := &pbt.Case{}
	c.Spec = g.Draw(t, rapid.IntRange(1, maxB).Draw(t, "budget"))
	// Aux[0]: an independent tree; Aux[1..3]: near-equal perturbations of sub-trees of e;
	// Aux[4]: a monotonicity wrapper template (its C is replaced by e).
	c.Aux = append(c.Aux, g.Draw(t, rapid.IntRange(1, 4).Draw(t, "budget2")))
	nodes := c.Spec.Nodes()
	for k := 0; k < 3; k++ {
		sub := nodes[rapid.IntRange(0, len(nodes)-1).Draw(t, "pick")]
		p, what := gen.Perturb(t, sub)
		c.Aux = append(c.Aux, p)
		c.SetStr(fmt.Sprintf("perturbation%d", k+1), what)
	}
	if rapid.IntRange(0, 3).Draw(t, "doublemark") == 0 {
		// Mark(Mark(e, r1), r2) with r1 and r2 of equal message and chain
		// length but different type: both marks must keep matching.
		msg, pfx := str(t, "m"), str(t, "p")
		pairs := [][2]*gen.Spec{
			{{K: "goerr", S: []string{msg}}, {K: "uleafptr", S: []string{msg}}},
			{{K: "rleaf", S: []string{msg}}, {K: "uoptleaf", S: []string{msg}}},
			{{K: "withmsg", S: []string{pfx}, C: &gen.Spec{K: "goerr", S: []string{msg}}}, {K: "pkgmsg", S: []string{pfx}, C: &gen.Spec{K: "goerr", S: []string{msg}}}},
			{{K: "goerrorf", S: []string{pfx}, C: &gen.Spec{K: "uleafval", S: []string{msg}}}, {K: "uwrapnofmt", S: []string{pfx}, C: &gen.Spec{K: "uleafval", S: []string{msg}}}},
		}
		pr := pairs[rapid.IntRange(0, len(pairs)-1).Draw(t, "pair")]
		c.Spec = &gen.Spec{K: "mark", C: &gen.Spec{K: "mark", C: c.Spec, X: []*gen.Spec{pr[0]}}, X: []*gen.Spec{pr[1]}}
		c.Aux = append(c.Aux, pr[0].Clone(), pr[1].Clone())
		c.SetStr("feature", "double mark")
	}
	wk := rapid.SampledFrom(monotoneWrappers).Draw(t, "monotone-wrapper")
	w := g.WrapOf(t, wk, &gen.Spec{K: "goerr", S: []string{"placeholder"}})
	for i := range w.X {
		w.X[i] = g.DrawLeaf(t)
	}
	c.Aux = append(c.Aux, w)
	return c
}

func safeIs(e, r error) (res bool, p string) {
	defer func() {
		if x := recover(); x != nil {
			p = fmt.Sprint(x)
		}
	}()
	return errors.Is(e, r), ""
}

func safeIsAny(e error, rs ...error) (res bool, p string) {
	defer func() {
		if x := recover(); x != nil {
			p = fmt.Sprint(x)
		}
	}()
	return errors.IsAny(e, rs...), ""
}

func panicClass(p string) string {
	switch {
	case strings.Contains(p, "index out of range"):
		return "index out of range"
	case strings.Contains(p, "uncomparable"), strings.Contains(p, "unhashable"):
		return "comparing uncomparable values"
	}
	return "other"
}

func check(c *pbt.Case, r *pbt.R) {
	b := gen.BuildAll(c.Spec)
	e := b.Root
	vis, err := gen.Visible(c.Spec, e)
	if err != nil {
		r.Failf("model and implementation disagree on the layer structure", "%v", err)
		return
	}
	type ref struct {
		n    gen.VNode
		from string
	}
	var refs []ref
	for _, v := range vis {
		refs = append(refs, ref{v, "node of e"})
	}
	for _, n := range gen.SentinelNames {
		sp := &gen.Spec{K: "sentinel", S: []string{n}}
		vs, err := gen.RefsOf(sp)
		if err != nil {
			r.Failf("model and implementation disagree on the layer structure", "%v", err)
		}
		refs = append(refs, ref{vs[0], "sentinel"})
	}
	var wrapper *gen.Spec
	for i := 0; i < len(c.Aux); i++ {
		if a := c.Aux[i]; a.C != nil && a.C.K == "goerr" && len(a.C.S) == 1 && a.C.S[0] == "placeholder" {
			wrapper = a // the monotonicity wrapper template
			continue
		}
		vs, err := gen.RefsOf(c.Aux[i])
		if err != nil {
			r.Failf("model and implementation disagree on the layer structure", "%v", err)
		}
		from := "perturbed copy"
		if i == 0 {
			from = "independent tree"
		}
		for _, v := range vs {
			refs = append(refs, ref{v, from})
		}
	}

	// Monotonicity: w(e) for the drawn wrapper kind.
	var we error
	if wrapper != nil {
		ws := wrapper.Clone()
		ws.C = c.Spec
		wb := gen.BuildAll(ws)
		// Use a wrapper around the *same* object e.
		_ = wb
		we = buildAround(ws, e)
	}

	nearMiss, ncInvolved := false, false
	var all []error
	anyTrue := false
	for _, rf := range refs {
		got, p := safeIs(e, rf.n.Obj)
		if p != "" {
			r.Failf("Is panics: "+panicClass(p), "Is(e, r) panicked: %s\nr = %s layer %d (%s), %s\ne = %s", p, rf.n.Ls[0].Spec, rf.n.I, rf.n.Layer().Typ, rf.from, c.Spec)
			continue
		}
		want := gen.ModelIs(vis, rf.n, true)
		if got != want {
			r.Failf(fmt.Sprintf("Is disagrees with the documented equivalence: Is=%v", got),
				"Is=%v model=%v\nr = %s layer %d (%s) text %q, %s\nmark(r) = %+v\ne = %s", got, want, rf.n.Ls[0].Spec, rf.n.I, rf.n.Layer().Typ, rf.n.Text(), rf.from, gen.MarkOf(rf.n), c.Spec)
		}
		if got {
			anyTrue = true
		}
		// IsAny with this single reference (after a nil one) is Is.
		if ia, p := safeIsAny(e, nil, rf.n.Obj); p == "" && ia != got {
			r.Failf("IsAny differs from the disjunction of Is", "IsAny(e, nil, r)=%v, Is(e, r)=%v\nr = %s layer %d (%s), %s\ne = %s", ia, got, rf.n.Ls[0].Spec, rf.n.I, rf.n.Layer().Typ, rf.from, c.Spec)
		}
		if we != nil && got {
			wgot, p := safeIs(we, rf.n.Obj)
			if p != "" {
				r.Failf("Is panics: "+panicClass(p), "Is(w(e), r) panicked: %s\nw = %s\ne = %s", p, wrapper.K, c.Spec)
			} else if !wgot {
				r.Failf("Is is not monotone under wrapping", "Is(e,r) but not Is(%s(e), r)\nr = %s layer %d, %s\ne = %s", wrapper.K, rf.n.Ls[0].Spec, rf.n.I, rf.from, c.Spec)
			}
		}
		if rf.from == "perturbed copy" && !got {
			nearMiss = true
		}
		if strings.Contains(rf.n.Layer().Typ, "ULeafNC") {
			ncInvolved = true
		}
		all = append(all, rf.n.Obj)
	}
	// Reflexivity.
	for _, v := range vis {
		ok, p := safeIs(v.Obj, v.Obj)
		if p != "" {
			r.Failf("Is panics: "+panicClass(p), "Is(x, x) panicked: %s\nx = layer %d (%s) of %s", p, v.I, v.Layer().Typ, v.Ls[0].Spec)
		} else if !ok {
			r.Failf("Is is not reflexive", "Is(x, x) false for layer %d (%s) of %s", v.I, v.Layer().Typ, v.Ls[0].Spec)
		}
	}
	// IsAny = disjunction.
	got, p := safeIsAny(e, all...)
	if p != "" {
		r.Failf("IsAny panics: "+panicClass(p), "IsAny panicked: %s\ne = %s", p, c.Spec)
	} else if got != anyTrue {
		r.Failf("IsAny differs from the disjunction of Is", "IsAny=%v, disjunction=%v\ne = %s", got, anyTrue, c.Spec)
	}
	// IsAny on sub-lists (pairs) against the disjunction.
	for i := 0; i+1 < len(all) && i < 12; i += 2 {
		a, _ := safeIs(e, all[i])
		b2, _ := safeIs(e, all[i+1])
		g2, p := safeIsAny(e, all[i], nil, all[i+1])
		if p == "" && g2 != (a || b2) {
			r.Failf("IsAny differs from the disjunction of Is", "IsAny(e, r%d, nil, r%d)=%v, Is gives %v and %v\ne = %s", i, i+1, g2, a, b2, c.Spec)
		}
	}
	// nil handling.
	if errors.Is(nil, e) || !errors.Is(nil, nil) || errors.Is(e, nil) || errors.IsAny(nil, e) || !errors.IsAny(nil, e, nil) {
		r.Failf("Is/IsAny mishandle nil", "e = %s", c.Spec)
	}

	if nearMiss || ncInvolved || c.Spec.Has("uleafnc") {
		r.NonTrivial()
	}
	for k := range c.Spec.Kinds() {
		r.Count("kinds", k)
	}
	for i := 1; i <= 3; i++ {
		r.Count("perturbations", c.S[fmt.Sprintf("perturbation%d", i)])
	}
	if wrapper != nil {
		r.Count("monotone wrapper", wrapper.K)
	}
	if c.S["feature"] != "" {
		r.Count("features", c.S["feature"])
	}
	r.St.CountN("references per case", len(refs))
}

// buildAround builds the wrapper described by ws (whose C describes
// e) around the already-built object e, so that identity matches of e
// are preserved.
func buildAround(ws *gen.Spec, e error) error {
	hole := &gen.Spec{K: "prebuilt"}
	s := ws.Clone()
	s.C = hole
	gen.Prebuilt = e
	defer func() { gen.Prebuilt = nil }()
	return gen.Build(s)
}

var prop = &pbt.Prop{ID: "C08", Part: "is-model", Draw: draw, Check: check,
	Valid: func(c *pbt.Case) bool {
		if !gen.SpecRegular(c.Spec) {
			return false
		}
		for _, a := range c.Aux {
			if !gen.SpecRegular(a) {
				return false
			}
		}
		return len(c.Aux) >= 1
	}}

func TestProp(t *testing.T) { pbt.Run(t, prop) }
