//go:build verif

// C12 — information declared safe is retained in reports.
package c12

import (
	"strings"
	"testing"

	"github.com/cockroachdb/errors"
	"pgregory.net/rapid"

	"verif/gen"
	"verif/obs"
	"verif/pbt"
	"verif/wire"
)

func TestMain(m *testing.M) { pbt.Main(m) }

var safeCarriers = []string{"new", "newf", "assertf", "wrap", "wrapf", "withmsg", "withmsgf", "safedetails", "telemetry", "domain", "issuelink", "tags", "unimpl", "handleddomain", "assertwrap", "newfw"}

func draw(t *rapid.T) *pbt.Case {
	maxB := 8
	if pbt.Thorough() {
		maxB = 16
	}
	c := &pbt.Case{}
	sg := gen.Regular()
	alpha := rapid.SampledFrom([]string{"regular", "hostile"}).Draw(t, "alphabet")
	if alpha == "hostile" {
		sg = gen.Hostile()
	}
	c.SetStr("alphabet", alpha)
	g := gen.Default(sg).Boost(3, safeCarriers...).Boost(2, "sentinel").Boost(2, gen.BarrierKinds...).Boost(2, "secondary", "combine").With("netopsrc", "uwrapstackdetails", "uwrapstackdetails")
	// Construct the feature: safe strings behind a barrier or in a
	// secondary error: a hidden sub-tree with boosted safe carriers.
	hidden := g.Draw(t, rapid.IntRange(1, 5).Draw(t, "hiddenbudget"))
	var s *gen.Spec
	switch rapid.IntRange(0, 3).Draw(t, "hide") {
	case 0:
		s = g.WrapOf(t, rapid.SampledFrom(gen.BarrierKinds).Draw(t, "barrier"), hidden)
		for j := range s.X {
			s.X[j] = g.Draw(t, 3) // (error-typed format argument of NewAssertionErrorWithWrappedErrf)
		}
	case 1:
		s = &gen.Spec{K: rapid.SampledFrom([]string{"secondary", "combine"}).Draw(t, "sec"), C: g.Draw(t, 3), X: []*gen.Spec{hidden}}
		if rapid.IntRange(0, 2).Draw(t, "marktwin") == 0 {
			// The secondary error has the same types and message as the
			// primary one (a sentinel reused on two code paths) but carries
			// other safe annotations: both sets must be retained.
			k := rapid.SampledFrom([]string{"telemetry", "safedetails", "issuelink"}).Draw(t, "twinkind")
			s.C = g.WrapOf(t, k, hidden)
			s.X[0] = g.WrapOf(t, k, hidden.Clone())
		}
	default:
		s = hidden
	}
	for i, n := 0, rapid.IntRange(0, 4).Draw(t, "wrappers"); i < n; i++ {
		w := g.WrapOf(t, rapid.SampledFrom(g.Wraps).Draw(t, "w"), s)
		for j := range w.X {
			w.X[j] = g.Draw(t, 3)
		}
		s = w
	}
	if s.Size() > maxB*3 {
		s = hidden
	}
	c.Spec = s
	c.SetInt("hops", rapid.IntRange(0, 3).Draw(t, "hops"))
	return c
}

// retained collects the places where declared-safe information must
// be found: the Sentry event and extras, and GetAllSafeDetails.
func retained(e error) string {
	var b strings.Builder
	for _, s := range obs.Sinks(e) {
		if strings.HasPrefix(s.Name, "sentry") || strings.HasPrefix(s.Name, "safedetails") {
			b.WriteString(s.Text)
			b.WriteByte('\n')
		}
	}
	return b.String()
}

func check(c *pbt.Case, r *pbt.R) {
	e := gen.Build(c.Spec)
	taint := gen.Classify(c.Spec)
	for i := 0; i <= c.Int("hops"); i++ {
		if i > 0 {
			e, _ = wire.Hop(e)
		}
		out := retained(e)
		have := map[string]bool{}
		for _, tk := range gen.Tokens(out) {
			have[tk] = true
		}
		// Error type names and stack frames are declared safe too.
		for _, n := range obs.AllNodes(e) {
			tn := errors.GetSafeDetails(n).OriginalTypeName
			short := tn[strings.LastIndex(tn, ".")+1:]
			if !strings.Contains(out, short) {
				r.Failf("type name of a layer missing from the report and the safe details", "type %s (hop %d)\nspec %s", tn, i, c.Spec)
			}
			if st := errors.GetReportableStackTrace(n); st != nil && len(st.Frames) > 0 {
				fn := st.Frames[len(st.Frames)-1].Function
				if fn != "" && !strings.Contains(out, fn) {
					r.Failf("stack frame of a layer missing from the report and the safe details", "function %s of %s (hop %d)\nspec %s", fn, tn, i, c.Spec)
				}
			}
		}
		// The fixed messages of the standard sentinels the library prints
		// as safe (context.Canceled, os.ErrNotExist ...) are retained as
		// well, wherever the sentinel sits (except inside a Mark
		// reference, of which only the mark is kept).
		for _, txt := range safeSentinelTexts(c.Spec, false) {
			if !strings.Contains(out, txt) {
				where := "local"
				if i > 0 {
					where = "after transfer"
				}
				r.Failf("the message of a safe standard sentinel is missing from the report and the safe details ("+where+")", "%q (hop %d)\nspec %s", txt, i, c.Spec)
			}
		}
		// A tag value the caller wrapped as safe (redact.SafeString) is an
		// argument declared safe: it is kept in the per-layer safe details
		// of a visible layer across hops (positions behind barriers or
		// inside multi-cause branches are not claimed).
		for x := c.Spec; x != nil && !gen.IsBarrierKind(x.K) && !gen.IsMultiKind(x.K); x = x.C {
			if x.K != "tags" {
				continue
			}
			for j := 0; 2*j < len(x.S); j++ {
				dup := false
				for k := j + 1; 2*k < len(x.S); k++ {
					dup = dup || x.S[2*k] == x.S[2*j] // a later tag with the same key replaces it
				}
				if x.I[j] != 2 || dup {
					continue
				}
				for _, tk := range gen.Tokens(x.S[2*j+1]) {
					if !have[tk] {
						r.Failf("a tag value declared safe is missing from the report and the safe details", "token %s (hop %d)\nspec %s", tk, i, c.Spec)
					}
				}
			}
		}
		// The safe details a foreign type reports for itself are kept as
		// well, also when the type records a stack trace of its own
		// (claimed on the visible single-cause chain: GetAllSafeDetails
		// does not descend into multi-cause branches, and the report lists
		// a stack-carrying layer by its frames).
		for x := c.Spec; x != nil && !gen.IsBarrierKind(x.K) && !gen.IsMultiKind(x.K); x = x.C {
			if x.K != "uwrapstackdetails" {
				continue
			}
			for _, tk := range gen.Tokens(x.S[0]) {
				if !have[tk] {
					r.Failf("declared-safe string missing from the report and the safe details (safe details of a foreign type that also has a stack trace)", "token %s (hop %d)\nspec %s", tk, i, c.Spec)
				}
			}
		}
		for tk := range taint.Safe {
			if !have[tk] {
				where := "local"
				if i > 0 {
					where = "after transfer"
				}
				r.Failf("declared-safe string missing from the report and the safe details ("+where+")", "token %s (hop %d)\nspec %s\n%s", tk, i, c.Spec, kindOf(c.Spec, tk))
			}
		}
	}
	behind := false
	var rec func(s *gen.Spec, hidden bool)
	rec = func(s *gen.Spec, hidden bool) {
		if hidden {
			for _, x := range s.S {
				for _, tk := range gen.Tokens(x) {
					if taint.Safe[tk] {
						behind = true
					}
				}
			}
		}
		if s.C != nil {
			rec(s.C, hidden || gen.IsBarrierKind(s.K))
		}
		for _, x := range s.X {
			rec(x, hidden || s.K == "secondary" || s.K == "combine" || s.K == "wrapf" || s.K == "newfw")
		}
	}
	rec(c.Spec, false)
	if behind && len(taint.Safe) >= 2 {
		r.NonTrivial()
	}
	r.Count("alphabet", c.S["alphabet"])
	r.St.CountN("hops", c.Int("hops"))
	r.St.CountN("declared-safe tokens", len(taint.Safe))
	if behind {
		r.Count("features", "safe token behind a barrier or in a secondary error")
	}
	for k := range c.Spec.Kinds() {
		r.Count("kinds", k)
	}
}

var safeSentinels = map[string]bool{"ctx-canceled": true, "ctx-deadline": true, "os-notexist": true, "os-exist": true, "os-permission": true, "os-closed": true, "os-invalid": true}

// safeSentinelTexts lists the messages of the safe standard sentinels
// in the tree that the report must show: those that are the leaf of a
// chain (the library prints a sentinel as safe in leaf position).
func safeSentinelTexts(s *gen.Spec, inMark bool) []string {
	var out []string
	if s.K == "sentinel" && safeSentinels[s.S[0]] && !inMark {
		out = append(out, gen.Sentinels[s.S[0]].Error())
	}
	if s.C != nil {
		out = append(out, safeSentinelTexts(s.C, inMark)...)
	}
	for _, x := range s.X {
		out = append(out, safeSentinelTexts(x, inMark || s.K == "mark")...)
	}
	return out
}

func kindOf(s *gen.Spec, tk string) string {
	for _, n := range s.Nodes() {
		for i, x := range n.S {
			if strings.Contains(x, tk) {
				return "token is parameter " + string(rune('0'+i)) + " of kind " + n.K + ": " + n.String()
			}
		}
	}
	return ""
}

var prop = &pbt.Prop{ID: "C12", Part: "retention", Draw: draw, Check: check}

func TestProp(t *testing.T) { pbt.Run(t, prop) }
