// Package reg is the registry of call-path helper functions used by
// the C16 check, and the independent oracle for "who called": the Go
// runtime's own runtime.Callers + runtime.CallersFrames walk.
package reg

import "runtime"

// R is what a constructor closure returns: the library's result and
// the runtime's view of the call stack at the same source line.
type R struct {
	Err    error
	Domain string
	Frames []runtime.Frame // Frames[0] is the function that called the constructor
}

// F calls one constructor of the library with depth d.
type F func(d int) R

// H is a call-path helper: it calls the next helper of the path, or
// the constructor closure when the path is exhausted.
type H func(path []int, f F, d int) R

var (
	Table []H
	Names []string
)

func Register(name string, h H) {
	Table = append(Table, h)
	Names = append(Names, name)
}

// Capture returns the logical call stack (inlined functions
// expanded) starting at the caller of Capture.
//
//go:noinline
func Capture() []runtime.Frame {
	pcs := make([]uintptr, 64)
	n := runtime.Callers(2, pcs)
	fr := runtime.CallersFrames(pcs[:n])
	var out []runtime.Frame
	for {
		f, more := fr.Next()
		out = append(out, f)
		if !more {
			break
		}
	}
	return out
}
