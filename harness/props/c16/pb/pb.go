// Package pb holds call-path helpers (see package reg).
package pb

import "verif/props/c16/reg"

// N: plain function, never inlined.
//
//go:noinline
func N(path []int, f reg.F, d int) reg.R {
	if len(path) == 0 {
		return f(d)
	}
	return reg.Table[path[0]](path[1:], f, d)
}

// inl is small enough to be inlined into O.
func inl(path []int, f reg.F, d int) reg.R {
	if len(path) == 0 {
		return f(d)
	}
	return reg.Table[path[0]](path[1:], f, d)
}

// O calls inl directly, so that inl is inlined (mid-stack inlining).
//
//go:noinline
func O(path []int, f reg.F, d int) reg.R { return inl(path, f, d) }

type T struct{ pad int }

//go:noinline
func (t T) MV(path []int, f reg.F, d int) reg.R {
	if len(path) == 0 {
		return f(d)
	}
	return reg.Table[path[0]](path[1:], f, d)
}

//go:noinline
func (t *T) MP(path []int, f reg.F, d int) reg.R {
	if len(path) == 0 {
		return f(d)
	}
	return reg.Table[path[0]](path[1:], f, d)
}

// CallMV / CallMP call the methods directly (no method-value wrapper).
//
//go:noinline
func CallMV(path []int, f reg.F, d int) reg.R { return T{1}.MV(path, f, d) }

//go:noinline
func CallMP(path []int, f reg.F, d int) reg.R { return (&T{2}).MP(path, f, d) }

// G is a generic type: its methods have instantiation brackets in
// their runtime names.
type G[T any] struct{ v T }

//go:noinline
func (g *G[T]) M(path []int, f reg.F, d int) reg.R {
	if len(path) == 0 {
		return f(d)
	}
	return reg.Table[path[0]](path[1:], f, d)
}

//go:noinline
func CallG(path []int, f reg.F, d int) reg.R { return (&G[string]{"x"}).M(path, f, d) }

//go:noinline
func GenericFunc[T any](v T, path []int, f reg.F, d int) reg.R {
	if len(path) == 0 {
		return f(d)
	}
	return reg.Table[path[0]](path[1:], f, d)
}

//go:noinline
func CallGF(path []int, f reg.F, d int) reg.R { return GenericFunc(1, path, f, d) }

func init() {
	reg.Register("pb.N", N)
	reg.Register("pb.O>inl", O)
	reg.Register("pb.CallMV>T.MV", CallMV)
	reg.Register("pb.CallMP>(*T).MP", CallMP)
	reg.Register("pb.CallG>(*G[T]).M", CallG)
	reg.Register("pb.CallGF>GenericFunc[T]", CallGF)
}
