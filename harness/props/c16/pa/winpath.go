// Package pa: a call-path helper whose source file name contains a
// colon, the way every Windows path does (C:/...). The //line
// directive renames this file for the rest of it, so the helper lives
// in a file of its own.
package pa

import "verif/props/c16/reg"

func init() { reg.Register("pa.W(file name with a colon)", W) }

//line C:/work/app/main.go:100

// W: plain function, never inlined, reported by the runtime as
// C:/work/app/main.go.
//
//go:noinline
func W(path []int, f reg.F, d int) reg.R {
	if len(path) == 0 {
		return f(d)
	}
	return reg.Table[path[0]](path[1:], f, d)
}
