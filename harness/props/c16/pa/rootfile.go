// Package pa: a call-path helper whose source file sits directly in
// the filesystem root (a container build with WORKDIR /). The //line
// directive renames this file for the rest of it.
package pa

import "verif/props/c16/reg"

func init() { reg.Register("pa.R(source file in the root directory)", R) }

//line /main.go:10

// R: plain function, never inlined, reported by the runtime as /main.go.
//
//go:noinline
func R(path []int, f reg.F, d int) reg.R {
	if len(path) == 0 {
		return f(d)
	}
	return reg.Table[path[0]](path[1:], f, d)
}
