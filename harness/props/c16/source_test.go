//go:build verif

package c16

import (
	"fmt"
	"testing"

	"github.com/cockroachdb/errors"
	"pgregory.net/rapid"

	"verif/gen"
	"verif/pbt"
	"verif/wire"
)

// "GetOneLineSource reports file, line and function of the innermost
// such frame": over generated chains that mix stack-capturing layers
// of the library and of pkg/errors with wrappers of every kind
// (among them foreign wrappers that expose their cause only through
// Cause()), the reported location must be that of the innermost layer
// of the chain that recorded a stack - where the chain is the one the
// library documents (Unwrap or Cause).
func drawSource(t *rapid.T) *pbt.Case {
	maxB := 8
	if pbt.Thorough() {
		maxB = 14
	}
	g := gen.Default(gen.Regular()).Boost(3, "stack", "wrap", "pkgstack", "pkgwrap", "pkgnew", "new", "stackn", "stackdeep").Boost(5, "uwrapcause", "uopt", "uwraptransparent", "goerrorf")
	g.WMulti = 0
	g.Multi = nil
	c := &pbt.Case{}
	c.Spec = g.Draw(t, rapid.IntRange(1, maxB).Draw(t, "budget"))
	c.SetInt("hops", rapid.IntRange(0, 1).Draw(t, "hops"))
	return c
}

func checkSource(c *pbt.Case, r *pbt.R) {
	e := gen.Build(c.Spec)
	ls := gen.Chain(c.Spec)
	var objs []error
	for x := e; x != nil; x = errors.UnwrapOnce(x) {
		objs = append(objs, x)
	}
	if len(objs) != len(ls) {
		r.Failf("model and implementation disagree on the layer structure", "%d vs %d layers\n%s", len(objs), len(ls), c.Spec)
		return
	}
	// The innermost layer that recorded at least one frame.
	inner := -1
	for i, l := range ls {
		if l.Stack && l.Spec.K != "stackdeep" {
			inner = i
		}
	}
	stacks := 0
	for _, l := range ls {
		if l.Stack {
			stacks++
		}
	}
	x := e
	if c.Int("hops") > 0 {
		x = wire.Decode(wire.Encode(e))
	}
	file, line, fn, ok := errors.GetOneLineSource(x)
	where := map[bool]string{false: "", true: " (after transfer)"}[c.Int("hops") > 0]
	if inner < 0 {
		if ok {
			r.Failf("GetOneLineSource reports a location for an error without recorded stack"+where, "%s:%d %s\n%s", file, line, fn, c.Spec)
		}
	} else {
		// (a) the same answer as for that layer taken alone
		wf, wl, wfn, wok := errors.GetOneLineSource(objs[inner])
		if !wok {
			r.Failf("GetOneLineSource finds nothing in a layer that recorded a stack", "layer %d (%s)\n%s", inner, ls[inner].Typ, c.Spec)
		}
		if ok != wok || file != wf || line != wl || fn != wfn {
			r.Failf("GetOneLineSource does not report the innermost recorded stack of the chain"+where, "got %s:%d %s ok=%v, innermost stack layer %d (%s) has %s:%d %s\n%s", file, line, fn, ok, inner, ls[inner].Typ, wf, wl, wfn, c.Spec)
		}
	}
	// (b) ... which is the first program counter that layer recorded,
	// resolved by the Go runtime (read from the local error also when
	// the observed one was transferred).
	if mf, ml, has, known := gen.ModelSource(c.Spec, e); known {
		if has != ok || (has && (mf != file || ml != line)) {
			r.Failf("GetOneLineSource is not the first recorded frame of the innermost stack"+where, "got %s:%d ok=%v, runtime says %s:%d has=%v\n%s", file, line, ok, mf, ml, has, c.Spec)
		}
	}
	causeOnlyBetween := false
	seenStack := false
	for _, l := range ls {
		if l.Stack {
			seenStack = true
		}
		if seenStack && l.Typ == "*gen.UWrapCauseOnly" && inner >= 0 {
			causeOnlyBetween = true
		}
	}
	if stacks >= 2 {
		r.NonTrivial()
	}
	r.St.CountN("layers with a stack", stacks)
	r.Count("hops", fmt.Sprint(c.Int("hops")))
	if causeOnlyBetween {
		r.Count("features", "Cause-only wrapper below a stack layer")
	}
}

var sourceProp = &pbt.Prop{ID: "C16", Part: "innermost-source", Draw: drawSource, Check: checkSource,
	Valid: func(c *pbt.Case) bool { return gen.SpecRegular(c.Spec) && !c.Spec.Has(gen.MultiKinds...) }}

func TestSource(t *testing.T) { pbt.Run(t, sourceProp) }
