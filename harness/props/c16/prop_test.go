//go:build verif

// C16 — stacks and package domains are attributed to the right caller.
package c16

import (
	goErr "errors"
	"fmt"
	"os"
	"path/filepath"
	"runtime"
	"strings"
	"testing"

	"github.com/cockroachdb/errors"
	"github.com/cockroachdb/errors/domains"
	"github.com/cockroachdb/errors/errbase"
	"github.com/cockroachdb/errors/errutil"
	"github.com/cockroachdb/errors/withstack"
	"pgregory.net/rapid"

	"verif/pbt"
	_ "verif/props/c16/pa"
	_ "verif/props/c16/pb"
	"verif/props/c16/reg"
	"verif/scan"
	"verif/wire"
)

func TestMain(m *testing.M) { pbt.Main(m) }

// base carries no stack of its own, so that the only stack is the
// one captured by the constructor under test.
var base = goErr.New("base")

type ctor struct {
	name   string
	depth  bool // takes a depth argument
	domain bool // computes a package domain instead of capturing a stack
	f      reg.F
}

// Every constructor call and the reg.Capture() call that records the
// runtime's view of the stack are on the same source line.
var ctors = []ctor{
	{"errors.New", false, false, func(d int) reg.R { return reg.R{Err: errors.New("x"), Frames: reg.Capture()} }},
	{"errors.Newf", false, false, func(d int) reg.R { return reg.R{Err: errors.Newf("x %d", 1), Frames: reg.Capture()} }},
	{"errors.Errorf", false, false, func(d int) reg.R { return reg.R{Err: errors.Errorf("x %d", 1), Frames: reg.Capture()} }},
	{"errors.NewWithDepth", true, false, func(d int) reg.R { return reg.R{Err: errors.NewWithDepth(d, "x"), Frames: reg.Capture()} }},
	{"errors.NewWithDepthf", true, false, func(d int) reg.R { return reg.R{Err: errors.NewWithDepthf(d, "x %d", 1), Frames: reg.Capture()} }},
	// the same constructors with a %w verb in the format (another code path)
	{"errors.Newf(%w)", false, false, func(d int) reg.R { return reg.R{Err: errors.Newf("x: %w", base), Frames: reg.Capture()} }},
	{"errors.Errorf(%w)", false, false, func(d int) reg.R { return reg.R{Err: errors.Errorf("x %d: %w", 1, base), Frames: reg.Capture()} }},
	{"errors.NewWithDepthf(%w)", true, false, func(d int) reg.R { return reg.R{Err: errors.NewWithDepthf(d, "%w: x", base), Frames: reg.Capture()} }},
	{"errors.AssertionFailedf(%w)", false, false, func(d int) reg.R { return reg.R{Err: errors.AssertionFailedf("x: %w", base), Frames: reg.Capture()} }},
	{"errors.AssertionFailedWithDepthf(%w)", true, false, func(d int) reg.R {
		return reg.R{Err: errors.AssertionFailedWithDepthf(d, "x: %w", base), Frames: reg.Capture()}
	}},
	{"errutil.NewWithDepthf(%w)", true, false, func(d int) reg.R { return reg.R{Err: errutil.NewWithDepthf(d, "x: %w", base), Frames: reg.Capture()} }},
	{"errors.Wrapf(error arg)", false, false, func(d int) reg.R { return reg.R{Err: errors.Wrapf(base, "x: %v", base), Frames: reg.Capture()} }},
	// an empty message takes another path through the wrapping constructors
	{"errors.Wrap(empty)", false, false, func(d int) reg.R { return reg.R{Err: errors.Wrap(base, ""), Frames: reg.Capture()} }},
	{"errors.WrapWithDepth(empty)", true, false, func(d int) reg.R { return reg.R{Err: errors.WrapWithDepth(d, base, ""), Frames: reg.Capture()} }},
	{"errors.Wrapf(empty)", false, false, func(d int) reg.R { return reg.R{Err: errors.Wrapf(base, ""), Frames: reg.Capture()} }},
	{"errors.WrapWithDepthf(empty)", true, false, func(d int) reg.R { return reg.R{Err: errors.WrapWithDepthf(d, base, ""), Frames: reg.Capture()} }},
	{"errutil.Wrap(empty)", false, false, func(d int) reg.R { return reg.R{Err: errutil.Wrap(base, ""), Frames: reg.Capture()} }},
	{"errutil.WrapWithDepth(empty)", true, false, func(d int) reg.R { return reg.R{Err: errutil.WrapWithDepth(d, base, ""), Frames: reg.Capture()} }},
	{"errors.New(empty)", false, false, func(d int) reg.R { return reg.R{Err: errors.New(""), Frames: reg.Capture()} }},
	{"errors.Wrap", false, false, func(d int) reg.R { return reg.R{Err: errors.Wrap(base, "x"), Frames: reg.Capture()} }},
	{"errors.Wrapf", false, false, func(d int) reg.R { return reg.R{Err: errors.Wrapf(base, "x %d", 1), Frames: reg.Capture()} }},
	{"errors.WrapWithDepth", true, false, func(d int) reg.R { return reg.R{Err: errors.WrapWithDepth(d, base, "x"), Frames: reg.Capture()} }},
	{"errors.WrapWithDepthf", true, false, func(d int) reg.R { return reg.R{Err: errors.WrapWithDepthf(d, base, "x %d", 1), Frames: reg.Capture()} }},
	{"errors.WithStack", false, false, func(d int) reg.R { return reg.R{Err: errors.WithStack(base), Frames: reg.Capture()} }},
	{"errors.WithStackDepth", true, false, func(d int) reg.R { return reg.R{Err: errors.WithStackDepth(base, d), Frames: reg.Capture()} }},
	{"errors.AssertionFailedf", false, false, func(d int) reg.R { return reg.R{Err: errors.AssertionFailedf("x"), Frames: reg.Capture()} }},
	{"errors.AssertionFailedWithDepthf", true, false, func(d int) reg.R { return reg.R{Err: errors.AssertionFailedWithDepthf(d, "x"), Frames: reg.Capture()} }},
	{"errors.NewAssertionErrorWithWrappedErrf", false, false, func(d int) reg.R {
		return reg.R{Err: errors.NewAssertionErrorWithWrappedErrf(base, "x"), Frames: reg.Capture()}
	}},
	{"errors.HandleAsAssertionFailure", false, false, func(d int) reg.R { return reg.R{Err: errors.HandleAsAssertionFailure(base), Frames: reg.Capture()} }},
	{"errors.HandleAsAssertionFailureDepth", true, false, func(d int) reg.R {
		return reg.R{Err: errors.HandleAsAssertionFailureDepth(d, base), Frames: reg.Capture()}
	}},
	{"errors.Join", false, false, func(d int) reg.R { return reg.R{Err: errors.Join(base, base), Frames: reg.Capture()} }},
	{"errors.JoinWithDepth", true, false, func(d int) reg.R { return reg.R{Err: errors.JoinWithDepth(d, base, base), Frames: reg.Capture()} }},
	{"errutil.New", false, false, func(d int) reg.R { return reg.R{Err: errutil.New("x"), Frames: reg.Capture()} }},
	{"errutil.Newf", false, false, func(d int) reg.R { return reg.R{Err: errutil.Newf("x"), Frames: reg.Capture()} }},
	{"errutil.NewWithDepth", true, false, func(d int) reg.R { return reg.R{Err: errutil.NewWithDepth(d, "x"), Frames: reg.Capture()} }},
	{"errutil.NewWithDepthf", true, false, func(d int) reg.R { return reg.R{Err: errutil.NewWithDepthf(d, "x"), Frames: reg.Capture()} }},
	{"errutil.Wrap", false, false, func(d int) reg.R { return reg.R{Err: errutil.Wrap(base, "x"), Frames: reg.Capture()} }},
	{"errutil.Wrapf", false, false, func(d int) reg.R { return reg.R{Err: errutil.Wrapf(base, "x"), Frames: reg.Capture()} }},
	{"errutil.WrapWithDepth", true, false, func(d int) reg.R { return reg.R{Err: errutil.WrapWithDepth(d, base, "x"), Frames: reg.Capture()} }},
	{"errutil.WrapWithDepthf", true, false, func(d int) reg.R { return reg.R{Err: errutil.WrapWithDepthf(d, base, "x"), Frames: reg.Capture()} }},
	{"errutil.AssertionFailedf", false, false, func(d int) reg.R { return reg.R{Err: errutil.AssertionFailedf("x"), Frames: reg.Capture()} }},
	{"errutil.AssertionFailedWithDepthf", true, false, func(d int) reg.R { return reg.R{Err: errutil.AssertionFailedWithDepthf(d, "x"), Frames: reg.Capture()} }},
	{"errutil.HandleAsAssertionFailure", false, false, func(d int) reg.R { return reg.R{Err: errutil.HandleAsAssertionFailure(base), Frames: reg.Capture()} }},
	{"errutil.HandleAsAssertionFailureDepth", true, false, func(d int) reg.R {
		return reg.R{Err: errutil.HandleAsAssertionFailureDepth(d, base), Frames: reg.Capture()}
	}},
	{"errutil.NewAssertionErrorWithWrappedErrf", false, false, func(d int) reg.R {
		return reg.R{Err: errutil.NewAssertionErrorWithWrappedErrf(base, "x"), Frames: reg.Capture()}
	}},
	{"errutil.NewAssertionErrorWithWrappedErrDepthf", true, false, func(d int) reg.R {
		return reg.R{Err: errutil.NewAssertionErrorWithWrappedErrDepthf(d, base, "x"), Frames: reg.Capture()}
	}},
	{"errutil.JoinWithDepth", true, false, func(d int) reg.R { return reg.R{Err: errutil.JoinWithDepth(d, base, base), Frames: reg.Capture()} }},
	{"withstack.WithStack", false, false, func(d int) reg.R { return reg.R{Err: withstack.WithStack(base), Frames: reg.Capture()} }},
	{"withstack.WithStackDepth", true, false, func(d int) reg.R { return reg.R{Err: withstack.WithStackDepth(base, d), Frames: reg.Capture()} }},
	// package domains
	{"errors.PackageDomain", false, true, func(d int) reg.R { return reg.R{Domain: string(errors.PackageDomain()), Frames: reg.Capture()} }},
	{"errors.PackageDomainAtDepth", true, true, func(d int) reg.R { return reg.R{Domain: string(errors.PackageDomainAtDepth(d)), Frames: reg.Capture()} }},
	{"domains.PackageDomain", false, true, func(d int) reg.R { return reg.R{Domain: string(domains.PackageDomain()), Frames: reg.Capture()} }},
	{"domains.PackageDomainAtDepth", true, true, func(d int) reg.R {
		return reg.R{Domain: string(domains.PackageDomainAtDepth(d)), Frames: reg.Capture()}
	}},
	{"domains.New", false, true, func(d int) reg.R {
		return reg.R{Domain: string(errors.GetDomain(domains.New("x"))), Frames: reg.Capture()}
	}},
	{"domains.Handled", false, true, func(d int) reg.R {
		return reg.R{Domain: string(errors.GetDomain(domains.Handled(base))), Frames: reg.Capture()}
	}},
}

// Exported functions of the scanned packages that neither capture a
// stack nor compute a package domain (reviewed by hand); anything
// else must be in the table above.
var notCapturing = strings.Fields(`
errors.As errors.BuildSentryReport errors.Cause errors.CombineErrors errors.DecodeError errors.EncodeError errors.EnsureNotInDomain errors.FlattenDetails
errors.FlattenHints errors.FormatError errors.Formattable errors.GetAllDetails errors.GetAllHints errors.GetAllIssueLinks errors.GetAllSafeDetails
errors.GetContextTags errors.GetDomain errors.GetOneLineSource errors.GetReportableStackTrace errors.GetSafeDetails errors.GetTelemetryKeys errors.GetTypeKey
errors.Handled errors.HandledInDomain errors.HandledInDomainWithMessage errors.HandledWithMessage errors.HasAssertionFailure errors.HasInterface
errors.HasIssueLink errors.HasType errors.HasUnimplementedError errors.If errors.Is errors.IsAny errors.IsAssertionFailure errors.IsIssueLink
errors.IsUnimplementedError errors.Mark errors.NamedDomain errors.NotInDomain errors.Opaque errors.Redact errors.RegisterLeafDecoder errors.RegisterLeafEncoder
errors.RegisterMultiCauseDecoder errors.RegisterMultiCauseEncoder errors.RegisterTypeMigration errors.RegisterWrapperDecoder errors.RegisterWrapperEncoder
errors.RegisterWrapperEncoderWithMessageType errors.ReportError errors.Safe errors.SetWarningFn errors.UnimplementedError errors.UnimplementedErrorf
errors.Unwrap errors.UnwrapAll errors.UnwrapOnce errors.WithAssertionFailure errors.WithContextTags errors.WithDetail errors.WithDetailf errors.WithDomain
errors.WithHint errors.WithHintf errors.WithIssueLink errors.WithMessage errors.WithMessagef errors.WithSafeDetails errors.WithSecondaryError errors.WithTelemetry
errutil.As errutil.WithMessage errutil.WithMessagef
withstack.GetOneLineSource withstack.GetReportableStackTrace
domains.EnsureNotInDomain domains.GetDomain domains.HandledInDomain domains.HandledInDomainWithMessage domains.NamedDomain domains.NotInDomain domains.WithDomain
`)

func lastFrame(e error) (fn, file string, line int, ok bool) {
	// The innermost layer that carries a stack.
	var withStack error
	for c := e; c != nil; c = errors.UnwrapOnce(c) {
		if errors.GetReportableStackTrace(c) != nil {
			withStack = c
		}
	}
	if withStack == nil {
		return "", "", 0, false
	}
	st := errors.GetReportableStackTrace(withStack)
	fr := st.Frames[len(st.Frames)-1]
	return fr.Module + "." + fr.Function, fr.AbsPath, fr.Lineno, true
}

func check(c *pbt.Case, r *pbt.R) {
	ct := ctors[c.Int("ctor")]
	d := c.Int("depth")
	if !ct.depth {
		d = 0
	}
	var path []int
	for _, p := range c.L["path"] {
		for i, n := range reg.Names {
			if n == p {
				path = append(path, i)
			}
		}
	}
	// The outermost helper is always a never-inlined function, so that
	// at least len(path) frames exist above the constructor closure.
	res := reg.Table[0](path, ct.f, d)
	if d >= len(res.Frames) {
		panic("call path shorter than depth")
	}
	want := res.Frames[d]
	desc := fmt.Sprintf("%s depth=%d path=%v\nruntime frame[%d]: %s %s:%d", ct.name, d, c.L["path"], d, want.Function, want.File, want.Line)
	if ct.domain {
		wantDom := "error domain: pkg " + filepath.Dir(want.File)
		if res.Domain != wantDom {
			r.Failf("package domain denotes the wrong caller: "+ct.name, "got %q want %q\n%s", res.Domain, wantDom, desc)
		}
	} else {
		fn, file, line, ok := lastFrame(res.Err)
		if !ok {
			r.Failf("constructor does not capture a stack: "+ct.name, "%s", desc)
			return
		}
		// Sentry splits "pkg/path.Func" into module and function; compare
		// modulo that split.
		if fn != want.Function || file != want.File || line != want.Line {
			r.Failf("first frame of the stack is not the d-th caller: "+ct.name, "got %s %s:%d\n%s", fn, file, line, desc)
		}
		// The whole reportable stack trace, not only its innermost frame:
		// one frame per recorded program counter, oldest call first, each
		// with the function, file and line the Go runtime gives for it.
		for x := res.Err; x != nil; x = errors.UnwrapOnce(x) {
			sp, isSP := x.(errbase.StackTraceProvider)
			if !isSP {
				continue
			}
			pcs := sp.StackTrace()
			st := errors.GetReportableStackTrace(x)
			if st == nil || len(st.Frames) != len(pcs) {
				n := -1
				if st != nil {
					n = len(st.Frames)
				}
				r.Failf("the reportable stack trace does not have one frame per recorded program counter: "+ct.name, "frames %d, program counters %d\n%s", n, len(pcs), desc)
				break
			}
			for i, p := range pcs {
				pc := uintptr(p) - 1
				rfn := runtime.FuncForPC(pc)
				if rfn == nil {
					continue
				}
				rfile, rline := rfn.FileLine(pc)
				fr := st.Frames[len(pcs)-1-i]
				if fr.AbsPath != rfile || fr.Lineno != rline || strings.Replace(fr.Module+"."+fr.Function, "·", ".", -1) != strings.Replace(rfn.Name(), "·", ".", -1) {
					r.Failf("a frame of the reportable stack trace is not what the runtime says for its program counter: "+ct.name, "frame %d: got %s.%s %s:%d, runtime %s %s:%d\n%s", i, fr.Module, fr.Function, fr.AbsPath, fr.Lineno, rfn.Name(), rfile, rline, desc)
				}
			}
		}
		sf, sl, sfn, sok := errors.GetOneLineSource(res.Err)
		short := want.Function[strings.LastIndex(want.Function, "/")+1:]
		if i := strings.Index(short, "."); i >= 0 {
			short = short[i+1:]
		}
		// ... also when further stacks are recorded outside of it.
		if f2, l2, fn2, ok2 := errors.GetOneLineSource(errors.WithStack(errors.Wrap(res.Err, "outer"))); f2 != sf || l2 != sl || fn2 != sfn || ok2 != sok {
			r.Failf("GetOneLineSource does not report the innermost recorded stack", "%s:%d %s vs %s:%d %s\n%s", f2, l2, fn2, sf, sl, sfn, desc)
		}
		// ... and when the error was received over the network and then
		// wrapped locally: the origin is still the innermost recorded frame.
		remote := wire.Decode(wire.Encode(res.Err))
		if f3, l3, fn3, ok3 := errors.GetOneLineSource(errors.WithStack(errors.Wrap(remote, "local"))); f3 != sf || l3 != sl || fn3 != sfn || ok3 != sok {
			r.Failf("GetOneLineSource of a received error wrapped locally does not report the origin", "%s:%d %s vs %s:%d %s\n%s", f3, l3, fn3, sf, sl, sfn, desc)
		}
		if !sok || sf != filepath.Base(want.File) && sf != want.File || sl != want.Line || !strings.HasSuffix(want.Function, sfn) && sfn != short {
			r.Failf("GetOneLineSource does not report the innermost recorded frame: "+ct.name, "got %s:%d %s ok=%v\n%s", sf, sl, sfn, sok, desc)
		}
	}
	if d > 0 || len(path) > 0 {
		r.NonTrivial()
	}
	r.Count("constructor", ct.name)
	r.St.CountN("depth", d)
	r.St.CountN("path length", len(path))
	if len(path) >= 26 {
		r.Count("features", "more than 32 frames on the stack")
	}
	if len(path) > 0 {
		r.Count("innermost helper", c.L["path"][len(path)-1])
	}
}

var prop = &pbt.Prop{ID: "C16", Part: "call-paths", Check: check,
	Draw: func(t *rapid.T) *pbt.Case {
		c := &pbt.Case{}
		c.SetInt("ctor", rapid.IntRange(0, len(ctors)-1).Draw(t, "ctor"))
		c.SetInt("depth", rapid.IntRange(0, 3).Draw(t, "depth"))
		// (long call paths too: the library records at most 32 frames)
		n := rapid.OneOf(rapid.IntRange(3, 6), rapid.IntRange(3, 6), rapid.IntRange(20, 40), rapid.Just(70)).Draw(t, "pathlen")
		var path []string
		for i := 0; i < n; i++ {
			path = append(path, rapid.SampledFrom(reg.Names).Draw(t, "helper"))
		}
		c.SetList("path", path)
		return c
	},
	Valid: func(c *pbt.Case) bool { return len(c.L["path"]) >= 3 },
}

func TestProp(t *testing.T) { pbt.Run(t, prop) }

var gridProp = &pbt.Prop{ID: "C16", Part: "grid", Check: check}

// TestGrid: every constructor x depth 0..3 x every helper as the
// innermost caller, exhaustively; the constructor table is checked
// for completeness against a go/parser scan.
func TestGrid(t *testing.T) {
	if os.Getenv("VERIF_REPLAY") != "" {
		pbt.Run(t, gridProp)
		return
	}
	st := pbt.NewStats("grid")
	defer st.Write()
	fs, err := scan.Exported("", "errutil", "withstack", "domains")
	if err != nil {
		t.Fatal(err)
	}
	known := map[string]bool{}
	for _, c := range ctors {
		n := c.name
		if i := strings.Index(n, "("); i >= 0 {
			n = n[:i]
		}
		known[n] = true
	}
	for _, n := range notCapturing {
		known[n] = true
	}
	for _, f := range fs {
		if !known[f.String()] {
			c := &pbt.Case{}
			c.SetStr("function", f.String())
			pbt.Fail(t, gridProp, st, c, &pbt.Failure{Sig: "stack attribution grid is incomplete: no entry for " + f.String(), Msg: fmt.Sprint(f.Params)})
		}
	}
	reported := map[string]bool{}
	for ci, ct := range ctors {
		maxd := 0
		if ct.depth {
			maxd = 3
		}
		for d := 0; d <= maxd; d++ {
			for _, h := range reg.Names {
				c := &pbt.Case{}
				c.SetInt("ctor", ci)
				c.SetInt("depth", d)
				c.SetList("path", []string{"pb.N", "pa.O>inl", "pb.CallMP>(*T).MP", h})
				f := gridProp.RunCheck(c, st)
				st.NT(c.Hash(), func() interface{} { return c })
				if f != nil && !reported[f.Sig] {
					reported[f.Sig] = true
					pbt.Fail(t, gridProp, st, c, f)
				}
			}
		}
	}
	st.Notes = append(st.Notes, fmt.Sprintf("stack attribution grid: %d constructors (completeness checked against %d scanned exported functions) x depths 0..3 x %d innermost helpers", len(ctors), len(fs), len(reg.Names)))
	st.Exhaustive = true
}
