//go:build verif

package c06

import (
	"testing"

	"verif/pbt"
)

// FuzzGrammar: coverage-guided search of the same grammar/congruence property.
func FuzzGrammar(f *testing.F) {
	pbt.Fuzz(f, Prop)
}
