//go:build verif

// C06 — redactable renderings are well-formed and congruent with
// plain ones.
package c06

import (
	"fmt"
	"strings"
	"testing"

	"github.com/cockroachdb/errors"
	"github.com/cockroachdb/redact"
	"pgregory.net/rapid"

	"verif/gen"
	"verif/pbt"
	"verif/wire"
)

func TestMain(m *testing.M) { pbt.Main(m) }

// wellFormed checks the marker grammar: balanced, never nested,
// balanced within every line.
func wellFormed(s string) string {
	for ln, line := range strings.Split(s, "\n") {
		open := false
		for _, r := range line {
			switch r {
			case '‹':
				if open {
					return fmt.Sprintf("nested open marker on line %d: %q", ln, line)
				}
				open = true
			case '›':
				if !open {
					return fmt.Sprintf("unmatched close marker on line %d: %q", ln, line)
				}
				open = false
			}
		}
		if open {
			return fmt.Sprintf("unclosed marker on line %d: %q", ln, line)
		}
	}
	return ""
}

func markerFree(s *gen.Spec) bool {
	for _, n := range s.Nodes() {
		for _, x := range n.S {
			if strings.Contains(x, "‹") || strings.Contains(x, "›") {
				return false
			}
		}
	}
	return true
}

func Draw(t *rapid.T) *pbt.Case {
	maxB := 8
	if pbt.Thorough() {
		maxB = 16
	}
	c := &pbt.Case{}
	sg := gen.Hostile()
	alpha := rapid.SampledFrom([]string{"hostile", "hostile", "regular", "marker-free"}).Draw(t, "alphabet")
	if alpha == "regular" {
		sg = gen.Regular()
	}
	if alpha == "marker-free" {
		sg = gen.MarkerFree()
	}
	c.SetStr("alphabet", alpha)
	g := gen.Default(sg).Boost(2, "uwrapnofmt", "uwrapfmtold", "uleaffmtold", "uwrapformatter", "pkgmsg", "goerrorf", "uwrapsafefmt", "uleafsafefmt").With("netopsrc", "uwrapbothfmt", "uwrapbothfmt")
	c.Spec = g.Draw(t, rapid.IntRange(1, maxB).Draw(t, "budget"))
	c.SetStr("variant", rapid.SampledFrom([]string{"local", "decoded", "opaque", "legacy-barrier"}).Draw(t, "variant"))
	return c
}

func Check(c *pbt.Case, r *pbt.R) {
	e := gen.Build(c.Spec)
	switch c.S["variant"] {
	case "decoded":
		e, _ = wire.Hop(e)
	case "legacy-barrier":
		// The error arrives from a process running the previous version
		// of the library, whose barriers have another type name and a
		// plain (not redactable) message: the raw text.
		e = wire.FromLegacyBarrierPeer(e, gen.BarrierTexts(c.Spec, e))
	case "opaque":
		enc := wire.Unmarshal(wire.Encode(e))
		wire.Rename(&enc, func(string) bool { return true })
		e = errors.DecodeError(wire.Ctx, enc)
	}
	// Congruence is claimed for marker-free inputs. Observed on the
	// unchanged tree: it holds for every non-empty valid UTF-8 string
	// without marker runes (newlines at any position included), and
	// fails for invalid UTF-8, which redact replaces; the check covers
	// the former.
	regular := gen.SpecMarkerFree(c.Spec)
	mfree := markerFree(c.Spec)
	for _, f := range []string{"%v", "%s", "%+v"} {
		out := string(redact.Sprintf(f, e))
		if m := wellFormed(out); m != "" {
			r.Failf("redactable rendering is not well-formed: "+f+" ("+c.S["variant"]+")", "%s\nspec %s\nout %.1200q", m, c.Spec, out)
		}
		// Also the redacted form must be well-formed.
		if m := wellFormed(string(redact.RedactableString(out).Redact())); m != "" {
			r.Failf("redacted rendering is not well-formed: "+f+" ("+c.S["variant"]+")", "%s\nspec %s", m, c.Spec)
		}
		if regular {
			plain := fmt.Sprintf(f, errors.Formattable(e))
			if st := redact.RedactableString(out).StripMarkers(); st != plain {
				r.Failf("stripping the markers does not give the plain rendering: "+f+" ("+c.S["variant"]+")", "spec %s\nredact-stripped: %q\nplain:           %q", c.Spec, st, plain)
			}
		}
	}
	for _, f := range []string{"%q", "%x", "%X", "%d"} {
		out := string(redact.Sprintf(f, e))
		if m := wellFormed(out); m != "" {
			r.Failf("redactable rendering is not well-formed: "+f+" ("+c.S["variant"]+")", "%s\nspec %s\nout %.1200q", m, c.Spec, out)
		}
		if !strings.HasPrefix(out, "‹%!"+f[1:]+"(") {
			r.Failf("unsupported verb is rendered instead of refused: "+f, "%.300q\nspec %s", out, c.Spec)
		}
	}
	// Non-trivial: a layer that is not a SafeFormatter between two
	// that are, or a hostile atom at a string boundary.
	boundary := false
	for _, n := range c.Spec.Nodes() {
		for _, x := range n.S {
			for _, a := range []string{"‹", "›", "\n", "\x00", "\xff", "\xe2"} {
				if strings.HasPrefix(x, a) || strings.HasSuffix(x, a) {
					boundary = true
				}
			}
		}
	}
	sandwich := false
	ls := gen.Chain(c.Spec)
	for i := 1; i+1 < len(ls); i++ {
		if !isLib(ls[i].Typ) && isLib(ls[i-1].Typ) && isLib(ls[i+1].Typ) {
			sandwich = true
		}
	}
	if boundary || sandwich {
		r.NonTrivial()
	}
	r.Count("alphabet", c.S["alphabet"])
	r.Count("variant", c.S["variant"])
	r.Count("class", map[bool]string{true: "marker-free valid UTF-8 (congruence checked)", false: "markers or invalid UTF-8"}[regular])
	r.Count("marker-free", fmt.Sprint(mfree))
	if regular && !gen.SpecRegular(c.Spec) {
		r.Count("features", "congruence checked with a leading, trailing or repeated newline")
	}
	if sandwich {
		r.Count("features", "foreign layer between two library layers")
	}
	if boundary {
		r.Count("features", "hostile atom at a string boundary")
	}
}

func isLib(typ string) bool {
	for _, p := range []string{"*withstack.", "*errutil.", "*hintdetail.", "*safedetails.", "*telemetrykeys.", "*domains.", "*issuelink.", "*contexttags.", "*assert.", "*markers.", "*secondary.", "*barriers.", "*exthttp.", "*extgrpc.", "*join."} {
		if strings.HasPrefix(typ, p) {
			return true
		}
	}
	return false
}

var Prop = &pbt.Prop{ID: "C06", Part: "grammar", Draw: Draw, Check: Check}

func TestProp(t *testing.T) { pbt.Run(t, Prop) }
