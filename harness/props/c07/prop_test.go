//go:build verif

// C07 — barriers, secondary errors and Mark references hide their
// payload from cause analysis.
package c07

import (
	"fmt"
	"reflect"
	"sort"
	"strings"
	"testing"

	"github.com/cockroachdb/errors"
	"pgregory.net/rapid"

	"verif/gen"
	"verif/obs"
	"verif/pbt"
	"verif/ref"
	"verif/wire"
)

func TestMain(m *testing.M) { pbt.Main(m) }

var payloadKinds = []string{"hint", "detail", "domain", "assertion", "assertf", "httpcode", "grpccode", "telemetry", "issuelink", "tags", "sentinel", "unimpl", "mark", "risleaf", "uleafptr", "uleafval", "ospath"}

func draw(t *rapid.T) *pbt.Case {
	maxB := 6
	if pbt.Thorough() {
		maxB = 12
	}
	// (wrapfgosyntax prints the Go type of its error argument into the
	// message, so the hidden error's type is visible by design: not used here)
	g := gen.Default(gen.Regular()).Without("wrapfgosyntax")
	hg := g.Boost(4, payloadKinds...)
	// Construct the feature: a hidden sub-tree H that carries
	// annotations and sentinels, hidden by a drawn mechanism, below
	// 0-3 drawn wrappers (which may hide further sub-trees).
	h := hg.Draw(t, rapid.IntRange(2, maxB).Draw(t, "hiddenbudget"))
	var s *gen.Spec
	mech := rapid.SampledFrom([]string{"barrier", "barrier", "secondary", "errarg", "mark"}).Draw(t, "mechanism")
	switch mech {
	case "barrier":
		s = g.WrapOf(t, rapid.SampledFrom(gen.BarrierKinds).Draw(t, "barrier"), h)
		for j := range s.X {
			s.X[j] = hg.Draw(t, 3) // (error-typed format argument of NewAssertionErrorWithWrappedErrf)
		}
	case "secondary":
		s = &gen.Spec{K: rapid.SampledFrom([]string{"secondary", "combine"}).Draw(t, "sec"), C: g.Draw(t, 3), X: []*gen.Spec{h}}
	case "errarg":
		s = g.WrapOf(t, "wrapferr", g.Draw(t, 3))
		s.X[0] = h
	case "mark":
		s = &gen.Spec{K: "mark", C: g.Draw(t, 3), X: []*gen.Spec{h}}
	}
	for i, n := 0, rapid.IntRange(0, 3).Draw(t, "wrappers"); i < n; i++ {
		w := g.WrapOf(t, rapid.SampledFrom(g.Wraps).Draw(t, "w"), s)
		for j := range w.X {
			w.X[j] = hg.Draw(t, 3)
		}
		s = w
	}
	if mech == "secondary" && rapid.IntRange(0, 2).Draw(t, "twin") == 0 {
		// the secondary error is a separately created, mark-equal twin of the main error
		s = &gen.Spec{K: "combine", C: h, X: []*gen.Spec{h.Clone()}}
	}
	gen.SprinkleEmpty(t, s)
	c := &pbt.Case{Spec: s}
	c.SetStr("mechanism", mech)
	c.SetInt("hops", rapid.IntRange(0, 2).Draw(t, "hops"))
	return c
}

// hiddenSlots lists the hidden sub-tree positions of the tree:
// behind a barrier, in secondary position (also error-typed format
// arguments), as Mark reference.
type hidden struct {
	spec *gen.Spec
	how  string
}

func collectHidden(s *gen.Spec, out *[]hidden) {
	if s.C != nil {
		if gen.IsBarrierKind(s.K) {
			*out = append(*out, hidden{s.C, "barrier"})
		} else {
			collectHidden(s.C, out)
		}
	}
	for _, x := range s.X {
		switch {
		case gen.IsSecondaryKind(s.K):
			*out = append(*out, hidden{x, "secondary"})
		case s.K == "mark":
			*out = append(*out, hidden{x, "mark"})
		default:
			collectHidden(x, out)
		}
	}
}

// replaceHidden returns a copy of the tree in which hidden sub-trees
// are replaced by a plain stdlib error with the same text.
func replaceHidden(s *gen.Spec, alsoMark bool) *gen.Spec {
	c := *s
	plain := func(x *gen.Spec) *gen.Spec { return &gen.Spec{K: "goerr", S: []string{gen.Build(x).Error()}} }
	if s.C != nil {
		if gen.IsBarrierKind(s.K) {
			c.C = plain(s.C)
		} else {
			c.C = replaceHidden(s.C, alsoMark)
		}
	}
	c.X = nil
	for _, x := range s.X {
		switch {
		case gen.IsSecondaryKind(s.K):
			c.X = append(c.X, plain(x))
		case s.K == "mark":
			c.X = append(c.X, x) // the mark itself is what Mark is for
		default:
			c.X = append(c.X, replaceHidden(x, alsoMark))
		}
	}
	if s.K == "mark" && alsoMark {
		// Drop the Mark layer altogether: its reference must contribute
		// nothing but the mark (which only Is-based functions see).
		return c.C
	}
	return &c
}

// notIsBased drops the observations that are decided by Is.
func notIsBased(kv []obs.KV) []obs.KV {
	var out []obs.KV
	for _, x := range kv {
		switch x.K {
		case "perm", "exist", "notexist", "timeout":
			continue
		case "isassert", "isunimpl", "islink":
			// these look at the outermost layer only, which dropping a
			// Mark layer changes
			continue
		}
		out = append(out, x)
	}
	return out
}

func tryB(f func() bool) (res bool, p string) {
	p = obs.Try(func() { res = f() })
	return
}

func check(c *pbt.Case, r *pbt.R) {
	var hs []hidden
	collectHidden(c.Spec, &hs)
	if len(hs) == 0 {
		panic("generator did not construct a hidden sub-tree")
	}
	b := gen.BuildAll(c.Spec)
	e := b.Root
	// (i) unreachability: no freshly built node of a hidden sub-tree
	// is reachable through Unwrap / Cause / UnwrapAll / multi-cause traversal.
	reach := obs.AllNodes(e)
	for x := e; x != nil; x = errors.Unwrap(x) {
		reach = append(reach, x)
	}
	reach = append(reach, errors.UnwrapAll(e), errors.Cause(e))
	for _, h := range hs {
		for _, n := range h.spec.Nodes() {
			if n.K == "sentinel" || n.K == "prototest" {
				// shared objects may legitimately also be visible elsewhere
				// (pointers to the zero-size TestError all compare equal)
				continue
			}
			o := b.Of[n]
			if reflect.ValueOf(o).Kind() != reflect.Ptr {
				continue // values compare by content: an equal twin elsewhere is not the hidden object
			}
			for _, v := range reach {
				if gen.Identical(o, v) && fmt.Sprintf("%T", o) != "gen.ULeafVal" {
					r.Failf("a hidden error is reachable through Unwrap/Cause/UnwrapAll: "+h.how, "hidden node %s (%T)\nspec %s", n.K, o, c.Spec)
				}
			}
		}
	}
	// The hidden error is attached at all: the layer structure is the documented one.
	if _, err := gen.Visible(c.Spec, e); err != nil {
		r.Failf("model and implementation disagree on the layer structure", "%v", err)
	}
	// (i') A hidden error contributes nothing to Is: e matches exactly
	// the references that one of its *visible* layers matches (by
	// identity, by its own Is method, or by equal mark - for a Mark layer
	// the mark of the reference's outermost layer, nothing deeper).
	if vis, err := gen.Visible(c.Spec, e); err == nil {
		pool := map[string][]gen.VNode{}
		for _, h := range hs {
			if vs, err := gen.RefsOf(h.spec); err == nil {
				pool["copy of a node hidden by "+h.how] = append(pool["copy of a node hidden by "+h.how], vs...)
			}
		}
		for _, n := range gen.SentinelNames {
			vs, _ := gen.RefsOf(&gen.Spec{K: "sentinel", S: []string{n}})
			pool["sentinel"] = append(pool["sentinel"], vs[0])
		}
		var froms []string
		for from := range pool {
			froms = append(froms, from)
		}
		sort.Strings(froms)
		for _, from := range froms {
			for _, rv := range pool[from] {
				got, p := obs.SafeIs(e, rv.Obj)
				if p != nil {
					continue
				}
				if want := gen.ModelIs(vis, rv, true); got != want {
					r.Failf(fmt.Sprintf("Is on an error with hidden parts is not decided by its visible layers alone: Is=%v", got),
						"reference: %s, %s layer %d (%s) text %q\nspec %s", from, rv.Ls[0].Spec, rv.I, rv.Layer().Typ, rv.Text(), c.Spec)
				}
			}
		}
	}

	// (iii) Handled keeps the hidden text, the WithMessage variants replace it.
	for _, n := range c.Spec.Nodes() {
		if !gen.IsBarrierKind(n.K) {
			continue
		}
		got := b.Of[n].Error()
		hid := b.Of[n.C].Error()
		want := hid
		switch n.K {
		case "handledmsg":
			want = n.S[0]
		case "handleddomainmsg":
			want = n.S[1]
		case "handledmsgf", "handledsafemsg":
			want = "lit " + n.S[0] + " u=" + n.S[1] + " s=" + n.S[2]
		case "handledmsgf0":
			want = "lit " + n.S[0]
		case "assertwraperr":
			want = "lit " + n.S[0] + " e=" + b.Of[n.X[0]].Error() + ": " + hid
		case "assertwrap":
			want = "lit " + n.S[0] + " u=" + n.S[1] + " s=" + n.S[2] + ": " + hid
		}
		if got != want {
			r.Failf("a barrier does not show the documented text: "+n.K, "got %q want %q\nspec %s", got, want, c.Spec)
		}
	}

	// (ii) metamorphic non-interference.
	specB := replaceHidden(c.Spec, false) // Mark layers kept
	specC := replaceHidden(c.Spec, true)  // Mark layers dropped
	eB, eC := gen.Build(specB), gen.Build(specC)
	// References: fresh copies of every hidden node (mark-equal to the
	// hidden objects), the sentinel pool, the visible nodes.
	var refs []error
	var refNames []string
	for _, h := range hs {
		for _, n := range obs.AllNodes(gen.Build(h.spec)) {
			refs = append(refs, n)
			refNames = append(refNames, "copy of a hidden node ("+h.how+")")
		}
	}
	for _, n := range gen.SentinelNames {
		refs = append(refs, gen.Sentinels[n])
		refNames = append(refNames, "sentinel "+n)
	}
	opt := obs.Opt{NoStacks: true, NoSafeDetails: true}
	x, xB, xC := e, eB, eC
	for hop := 0; hop <= c.Int("hops"); hop++ {
		if hop > 0 {
			x, _ = wire.Hop(x)
			xB, _ = wire.Hop(xB)
			xC, _ = wire.Hop(xC)
		}
		where := "local"
		if hop > 0 {
			where = "after transfer"
		}
		if x.Error() != e.Error() {
			r.Failf("the text of an error with hidden parts changes in transfer", "%q vs %q\nspec %s", x.Error(), e.Error(), c.Spec)
		}
		if x.Error() != xC.Error() || x.Error() != xB.Error() {
			r.Failf("the text changes when the hidden error is replaced by a plain error with the same text ("+where+")", "%q vs %q\nspec %s", x.Error(), xB.Error(), c.Spec)
		}
		sa, sb := obs.Snapshot(x, opt), obs.Snapshot(xB, opt)
		if d, differs := obs.DiffKV(sa, sb); differs {
			r.Failf("a hidden error contributes to an accessor: "+obs.DiffKey(sa, sb)+" ("+where+")", "%s\nspec %s\nreplaced %s", d, c.Spec, specB)
		}
		// Without the Mark layers: everything that is not decided by Is
		// (the OS predicates are) must be the same.
		sc := notIsBased(obs.Snapshot(xC, opt))
		if d, differs := obs.DiffKV(notIsBased(sa), sc); differs {
			r.Failf("a Mark reference contributes to an accessor: "+obs.DiffKey(notIsBased(sa), sc)+" ("+where+")", "%s\nspec %s\nwithout marks %s", d, c.Spec, specC)
		}
		for i, rf := range refs {
			a, p1 := obs.SafeIs(x, rf)
			bb, p2 := obs.SafeIs(xB, rf)
			if p1 != nil || p2 != nil {
				continue
			}
			if a != bb {
				r.Failf("a hidden error contributes to Is ("+where+")", "reference: %s, %T %q: with hidden=%v, with plain replacement=%v\nspec %s", refNames[i], rf, rf, a, bb, c.Spec)
			}
			if ia, _ := tryB(func() bool { return errors.IsAny(x, rf) }); ia != a {
				r.Failf("IsAny differs from Is on a tree with hidden errors ("+where+")", "reference: %s\nspec %s", refNames[i], c.Spec)
			}
			ha, p1s := tryB(func() bool { return errors.HasType(x, rf) })
			hc, p2s := tryB(func() bool { return errors.HasType(xB, rf) })
			if p1s == "" && p2s == "" && ha != hc {
				r.Failf("a hidden error contributes to HasType ("+where+")", "reference: %s, %T\nspec %s", refNames[i], rf, c.Spec)
			}
		}
		for _, mk := range ref.AsTargets() {
			ta, tc := mk(), mk()
			aa, p1 := tryB(func() bool { return errors.As(x, ta) })
			ac, p2 := tryB(func() bool { return errors.As(xB, tc) })
			if p1 == "" && p2 == "" && aa != ac {
				r.Failf("a hidden error contributes to As ("+where+")", "target %T: with hidden=%v, with plain replacement=%v\nspec %s", ta, aa, ac, c.Spec)
			}
		}
		// If: count the layers visited.
		cnt := func(z error) int {
			n := 0
			errors.If(z, func(error) (interface{}, bool) { n++; return nil, false })
			return n
		}
		if cnt(x) != cnt(xB) {
			r.Failf("If visits a different number of layers when the hidden error is replaced ("+where+")", "%d vs %d\nspec %s", cnt(x), cnt(xB), c.Spec)
		}
	}

	// (iv) the hidden error remains fully visible in %+v, locally and
	// after transfer: the text of every node of a hidden sub-tree
	// (hidden parts of hidden parts included; of a Mark reference only
	// the mark is kept).
	var shown []*gen.Spec
	var collect func(n *gen.Spec)
	collect = func(n *gen.Spec) {
		if n == nil {
			return
		}
		shown = append(shown, n)
		collect(n.C)
		if n.K != "mark" {
			for _, x := range n.X {
				collect(x)
			}
		}
	}
	for _, h := range hs {
		if h.how != "mark" {
			collect(h.spec)
		}
	}
	xv := e
	for hop := 0; hop <= c.Int("hops"); hop++ {
		if hop > 0 {
			xv, _ = wire.Hop(xv)
		}
		out := fmt.Sprintf("%+v", errors.Formattable(xv))
		toks := map[string]bool{}
		for _, tk := range gen.Tokens(out) {
			toks[tk] = true
		}
		for _, n := range shown {
			for _, tk := range gen.Tokens(b.Of[n].Error()) {
				if !toks[tk] {
					r.Failf("the text of a hidden error is not visible in %+v"+map[bool]string{false: "", true: " after transfer"}[hop > 0], "token %s of hidden node %s\nspec %s\n%s", tk, n.K, c.Spec, out)
				}
			}
		}
	}

	// (v) ... and contributes its safe details to reports: every safe
	// detail of every layer of a hidden error's chain is part of the
	// safe details of the layer that hides it (barrier, secondary error).
	for _, n := range c.Spec.Nodes() {
		var hids []*gen.Spec
		if gen.IsBarrierKind(n.K) {
			hids = append(hids, n.C)
		}
		if gen.IsSecondaryKind(n.K) {
			hids = append(hids, n.X[0])
		}
		if len(hids) == 0 || b.Of[n] == nil {
			continue
		}
		var have []string
		w := b.Of[n]
		for i := 0; i < len(gen.Chain1(n)) && w != nil; i, w = i+1, errors.UnwrapOnce(w) {
			have = append(have, errors.GetSafeDetails(w).SafeDetails...)
		}
		if gen.IsBarrierKind(n.K) {
			// ... and a barrier's details end with a rendering of the whole
			// hidden error: every layer of its chain is named there.
			all := strings.Join(have, "\n")
			for _, l := range gen.Chain(n.C) {
				if !strings.Contains(all, l.Typ) {
					r.Failf("a barrier's safe details do not render every layer of the hidden error", "layer type %s missing\nspec %s", l.Typ, c.Spec)
				}
			}
		}
		for _, hid := range hids {
			for x := b.Of[hid]; x != nil; x = errors.UnwrapOnce(x) {
				for _, sd := range errors.GetSafeDetails(x).SafeDetails {
					if sd == "" {
						continue
					}
					found := false
					for _, el := range have {
						if strings.HasSuffix(el, sd) {
							found = true
						}
					}
					if !found {
						r.Failf("a safe detail of a hidden error is missing from the safe details of the layer that hides it: "+n.K, "layer %T of the hidden error, detail %.200q\nspec %s", x, sd, c.Spec)
					}
				}
			}
		}
	}

	// (vi) ... also at a process that knows neither barriers nor secondary
	// errors: the hiding layers arrive there as opaque values, and what
	// they report must still contain every safe detail the origin reports
	// for them (the details travel with the layer).
	{
		const barrierFam = "github.com/cockroachdb/errors/barriers/*barriers.barrierErr"
		const secondaryFam = "github.com/cockroachdb/errors/secondary/*secondary.withSecondaryError"
		sent := wire.Encode(e) // (encoded at the origin, which knows the types)
		wire.At([]string{barrierFam, secondaryFam}, func() {
			mid := wire.Decode(sent)
			var rec func(o, m *obs.Node)
			rec = func(o, m *obs.Node) {
				if tn := fmt.Sprintf("%T", o.Err); tn == "*barriers.barrierErr" || tn == "*secondary.withSecondaryError" {
					got := errors.GetSafeDetails(m.Err).SafeDetails
					for _, d := range errors.GetSafeDetails(o.Err).SafeDetails {
						found := false
						for _, x := range got {
							if x == d {
								found = true
							}
						}
						if !found {
							r.Failf("a hiding layer loses safe details at a process that does not know its type: "+tn, "detail %.200q\nspec %s", d, c.Spec)
						}
					}
				}
				for i := range o.Kids {
					if i < len(m.Kids) {
						rec(o.Kids[i], m.Kids[i])
					}
				}
			}
			rec(obs.Shape(e), obs.Shape(mid))
		})
	}

	rich := false
	for _, h := range hs {
		if len(gen.Chain(h.spec)) >= 2 && h.spec.Has(payloadKinds...) {
			rich = true
		}
	}
	if rich {
		r.NonTrivial()
	}
	r.Count("mechanism", c.S["mechanism"])
	r.St.CountN("hidden sub-trees", len(hs))
	r.St.CountN("hops", c.Int("hops"))
	for _, h := range hs {
		r.Count("hidden by", h.how)
	}
	_ = strings.Contains
}

var prop = &pbt.Prop{ID: "C07", Part: "hidden", Draw: draw, Check: check,
	Valid: func(c *pbt.Case) bool {
		var hs []hidden
		collectHidden(c.Spec, &hs)
		return len(hs) > 0 && gen.SpecRegularOrEmpty(c.Spec)
	}}

func TestProp(t *testing.T) { pbt.Run(t, prop) }
