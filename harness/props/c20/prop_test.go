//go:build verif

// C20 — the gRPC interceptors deliver the handler's error to the caller.
package c20

import (
	"context"
	"fmt"
	"github.com/cockroachdb/errors"
	"net"
	"strings"
	"sync"
	"testing"
	"time"

	"github.com/cockroachdb/errors/extgrpc"
	egrpc "github.com/cockroachdb/errors/grpc"
	"github.com/cockroachdb/errors/grpc/middleware"
	libstatus "github.com/cockroachdb/errors/grpc/status"
	"github.com/hydrogen18/memlistener"
	"google.golang.org/grpc"
	"google.golang.org/grpc/codes"
	grpcstatus "google.golang.org/grpc/status"
	"pgregory.net/rapid"

	"verif/gen"
	"verif/obs"
	"verif/pbt"
	"verif/wire"
)

const panicMark = "PANIC IN THE SERVER INTERCEPTOR"

type server struct {
	mu   sync.Mutex
	errs map[string]error
}

func (s *server) Echo(ctx context.Context, req *egrpc.EchoRequest) (*egrpc.EchoReply, error) {
	s.mu.Lock()
	e := s.errs[req.Text]
	s.mu.Unlock()
	if e == nil {
		return &egrpc.EchoReply{Reply: "echo " + req.Text}, nil
	}
	return nil, e
}

var (
	srv               = &server{errs: map[string]error{}}
	client, rawClient egrpc.EchoerClient
	ctx               = context.Background()
	seq               int
)

func TestMain(m *testing.M) {
	lis := memlistener.NewMemoryListener()
	// (a panic inside the library's interceptor would kill the process with
	// the server goroutine: an outer interceptor turns it into a status
	// the check can see)
	guard := func(ctx context.Context, req interface{}, info *grpc.UnaryServerInfo, handler grpc.UnaryHandler) (resp interface{}, err error) {
		defer func() {
			if x := recover(); x != nil {
				resp, err = nil, grpcstatus.Errorf(codes.Internal, "%s: %v", panicMark, x)
			}
		}()
		return handler(ctx, req)
	}
	gs := grpc.NewServer(grpc.ChainUnaryInterceptor(guard, middleware.UnaryServerInterceptor))
	egrpc.RegisterEchoerServer(gs, srv)
	go func() { _ = gs.Serve(lis) }()
	dial := grpc.WithDialer(func(string, time.Duration) (net.Conn, error) { return lis.Dial("", "") })
	cc, err := grpc.Dial("", dial, grpc.WithInsecure(), grpc.WithUnaryInterceptor(middleware.UnaryClientInterceptor))
	if err != nil {
		panic(err)
	}
	client = egrpc.NewEchoerClient(cc)
	cc2, err := grpc.Dial("", dial, grpc.WithInsecure())
	if err != nil {
		panic(err)
	}
	rawClient = egrpc.NewEchoerClient(cc2)
	pbt.Main(m)
}

// call makes the handler return e and returns what both clients see.
func call(e error) (got, raw error, reply *egrpc.EchoReply) {
	seq++
	id := fmt.Sprint("case", seq)
	srv.mu.Lock()
	srv.errs[id] = e
	srv.mu.Unlock()
	defer func() {
		srv.mu.Lock()
		delete(srv.errs, id)
		srv.mu.Unlock()
	}()
	c, cancel := context.WithTimeout(ctx, 20*time.Second)
	defer cancel()
	reply, got = client.Echo(c, &egrpc.EchoRequest{Text: id})
	_, raw = rawClient.Echo(c, &egrpc.EchoRequest{Text: id})
	return got, raw, reply
}

func draw(t *rapid.T) *pbt.Case {
	maxB := 10
	if pbt.Thorough() {
		maxB = 16
	}
	g := gen.Default(gen.Regular()).Boost(4, "grpccode", "grpcstatus", "gogostatus")
	c := &pbt.Case{}
	c.Spec = g.Draw(t, rapid.IntRange(1, maxB).Draw(t, "budget"))
	// An explicitly attached codes.Unknown is a code like any other.
	for _, n := range c.Spec.Nodes() {
		if n.K == "grpccode" && (n.I[0] == int(codes.OK) || rapid.IntRange(0, 3).Draw(t, "unknown") == 0) {
			// (a status with code OK is "no error" by gRPC's definition: outside the domain)
			n.I[0] = int(codes.Unknown)
		}
	}
	return c
}

// modelCode: the code attached by the outermost WrapWithGrpcCode layer
// of the chain (Unknown otherwise), from the case description.
func modelCode(s *gen.Spec) codes.Code {
	for _, l := range gen.Chain(s) {
		if l.GRPC >= 0 {
			return codes.Code(l.GRPC)
		}
	}
	return codes.Unknown
}

func check(c *pbt.Case, r *pbt.R) {
	built := gen.BuildAll(c.Spec)
	e0 := built.Root
	// The errors the handler's error was built from keep their own
	// code: a handler that later returns one of them (a package-level
	// error that another handler has wrapped with another code) still
	// delivers that error's code.
	for n := c.Spec.C; n != nil; n = n.C {
		sub := built.Of[n]
		if _, isStatus := sub.(interface{ GRPCStatus() *grpcstatus.Status }); isStatus {
			continue
		}
		if lc, want := extgrpc.GetGrpcCode(sub), modelCode(n); lc != want {
			r.Failf("wrapping an error changes the gRPC code of the wrapped error", "GetGrpcCode(inner %s)=%v want %v\n%s", n.K, lc, want, c.Spec)
		}
	}
	if n := c.Spec.C; n != nil && (n.K == "grpccode" || c.Spec.K == "grpccode") {
		if _, raw2, _ := call(built.Of[n]); raw2 != nil {
			if st2, ok := grpcstatus.FromError(raw2); ok && st2.Code() != modelCode(n) {
				if _, isStatus := built.Of[n].(interface{ GRPCStatus() *grpcstatus.Status }); !isStatus {
					r.Failf("wrapping an error changes the gRPC code of the wrapped error", "a call returning the wrapped error delivers %v, want %v\n%s", st2.Code(), modelCode(n), c.Spec)
				}
			}
		}
	}
	got, raw, _ := call(e0)
	if raw != nil && strings.Contains(raw.Error(), panicMark) {
		r.Failf("the server interceptor panics on the handler's error", "%v\n%s", raw, c.Spec)
		return
	}
	if got == nil || raw == nil {
		r.Failf("the caller receives no error", "got=%v raw=%v\n%s", got, raw, c.Spec)
		return
	}
	rawSt, ok := grpcstatus.FromError(raw)
	if !ok {
		r.Failf("the raw client does not see a gRPC status", "%T %v\n%s", raw, raw, c.Spec)
		return
	}
	if s, isStatus := e0.(interface{ GRPCStatus() *grpcstatus.Status }); isStatus {
		// Already a status error: passes through unchanged.
		want := s.GRPCStatus()
		gs, ok := grpcstatus.FromError(got)
		sameDetails := func(a *grpcstatus.Status) bool {
			da, dw := a.Proto().GetDetails(), want.Proto().GetDetails()
			if len(da) != len(dw) {
				return false
			}
			for i := range da {
				if da[i].GetTypeUrl() != dw[i].GetTypeUrl() || string(da[i].GetValue()) != string(dw[i].GetValue()) {
					return false
				}
			}
			return true
		}
		if len(want.Proto().GetDetails()) > 0 {
			r.Count("handler error", "status error with details")
		}
		if ok && (!sameDetails(gs) || !sameDetails(rawSt)) {
			r.Failf("a gRPC status error loses its details on the way", "want %d details; client got %v; raw %v\n%s", len(want.Proto().GetDetails()), gs.Proto().GetDetails(), rawSt.Proto().GetDetails(), c.Spec)
		}
		// ... the very error the invoker returned: same Go type and text
		// as a client without interceptor sees.
		if fmt.Sprintf("%T", got) != fmt.Sprintf("%T", raw) || got.Error() != raw.Error() {
			r.Failf("a gRPC status error does not pass through unchanged", "client with interceptor got %T %q, client without %T %q\n%s", got, got, raw, raw, c.Spec)
		}
		if !ok || gs.Code() != want.Code() || gs.Message() != want.Message() || rawSt.Code() != want.Code() || rawSt.Message() != want.Message() {
			r.Failf("a gRPC status error does not pass through unchanged", "want %v %q; client got %v; raw %v\n%s", want.Code(), want.Message(), got, raw, c.Spec)
		}
		r.Count("handler error", "already a status error")
		r.NonTrivial()
		return
	}
	// The attached code, from the case description (not from the
	// library): the outermost WrapWithGrpcCode layer of the visible chain.
	wantCode := modelCode(c.Spec)
	if lc := extgrpc.GetGrpcCode(e0); lc != wantCode {
		r.Failf("GetGrpcCode is not the code attached by the outermost WrapWithGrpcCode", "got %v want %v\n%s", lc, wantCode, c.Spec)
	}
	if rawSt.Code() != wantCode {
		r.Failf("the status code visible to callers is not the attached code", "raw status code %v, attached %v\n%s", rawSt.Code(), wantCode, c.Spec)
	}
	if sc := libstatus.Code(got); sc != wantCode {
		r.Failf("grpc/status.Code of the received error is not the attached code", "got %v want %v\n%s", sc, wantCode, c.Spec)
	}
	if sc := libstatus.Code(e0); sc != wantCode {
		r.Failf("grpc/status.Code is not the code attached by the outermost WrapWithGrpcCode", "got %v want %v\n%s", sc, wantCode, c.Spec)
	}
	if gc := extgrpc.GetGrpcCode(got); gc != wantCode {
		r.Failf("GetGrpcCode of the received error is not the attached code", "got %v want %v\n%s", gc, wantCode, c.Spec)
	}
	direct := wire.Decode(wire.Encode(e0))
	if a, b := fmt.Sprintf("%+v", got), fmt.Sprintf("%+v", direct); a != b {
		r.Failf("the received error differs from a direct transfer: %+v", "%s\nvia gRPC:\n%s\n-----\ndirect:\n%s", c.Spec, a, b)
	}
	// "transferred directly with EncodeError/DecodeError" also means
	// without the protobuf serialisation that the interceptors add.
	mem := errors.DecodeError(wire.Ctx, errors.EncodeError(wire.Ctx, e0))
	if a, b := fmt.Sprintf("%+v", got), fmt.Sprintf("%+v", mem); a != b {
		r.Failf("the received error differs from a direct transfer: %+v", "(direct = EncodeError/DecodeError in memory)\n%s\nvia gRPC:\n%s\n-----\ndirect:\n%s", c.Spec, a, b)
	}
	if got.Error() != direct.Error() {
		r.Failf("the received error differs from a direct transfer: text", "%q vs %q\n%s", got, direct, c.Spec)
	}
	sa, sb := obs.Snapshot(direct, obs.Opt{}), obs.Snapshot(got, obs.Opt{})
	if d, differs := obs.DiffKV(sa, sb); differs {
		r.Failf("the received error differs from a direct transfer: accessor "+obs.DiffKey(sa, sb), "%s\n%s", d, c.Spec)
	}
	refs := append([]error{}, obs.AllNodes(e0)...)
	for _, n := range gen.SentinelNames {
		refs = append(refs, gen.Sentinels[n])
	}
	for _, rf := range refs {
		a, p1 := obs.SafeIs(direct, rf)
		b, p2 := obs.SafeIs(got, rf)
		if p1 != nil || p2 != nil {
			continue
		}
		if a != b {
			r.Failf("the received error differs from a direct transfer: Is", "Is(direct, %T %q)=%v via gRPC=%v\n%s", rf, rf, a, b, c.Spec)
		}
	}
	if wantCode != codes.Unknown {
		r.Count("handler error", "with attached code")
		r.NonTrivial()
	} else {
		r.Count("handler error", "without code")
		if c.Spec.Size() >= 3 {
			r.NonTrivial()
		}
	}
	r.St.CountN("spec nodes", c.Spec.Size())
	r.Count("raw status code", rawSt.Code().String())
}

var prop = &pbt.Prop{ID: "C20", Part: "interceptors", Draw: draw, Check: check,
	Valid: func(c *pbt.Case) bool {
		for _, n := range c.Spec.Nodes() {
			if n.K == "grpccode" && n.I[0] == int(codes.OK) {
				return false
			}
		}
		return gen.SpecRegular(c.Spec)
	}}

func TestProp(t *testing.T) { pbt.Run(t, prop) }

// TestNil: a nil error from the handler passes through unchanged.
func TestNil(t *testing.T) {
	st := pbt.NewStats("nil-passthrough")
	defer st.Write()
	p := &pbt.Prop{ID: "C20", Part: "nil-passthrough"}
	for i := 0; i < 5; i++ {
		st.Eval()
		got, raw, reply := call(nil)
		if got != nil || raw != nil || reply == nil {
			pbt.Fail(t, p, st, &pbt.Case{}, &pbt.Failure{Sig: "a nil handler error does not pass through as nil", Msg: fmt.Sprint(got, raw, reply)})
		}
		st.NT(uint64(i), func() interface{} { return "handler returns nil, call " + fmt.Sprint(i) })
	}
}
