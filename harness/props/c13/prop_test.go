//go:build verif

// C13 — multi-cause errors behave as a tree.
package c13

import (
	goErr "errors"
	"fmt"
	"regexp"
	"strings"
	"testing"

	"github.com/cockroachdb/errors"
	"github.com/cockroachdb/errors/errbase"
	"github.com/cockroachdb/errors/join"
	"pgregory.net/rapid"

	"verif/gen"
	"verif/obs"
	"verif/pbt"
	"verif/ref"
	"verif/wire"
)

func TestMain(m *testing.M) { pbt.Main(m) }

var tokRe = regexp.MustCompile(`Q\d\d\dZ`)

func draw(t *rapid.T) *pbt.Case {
	maxB := 6
	if pbt.Thorough() {
		maxB = 8
	}
	str := gen.Regular()
	// (umultiis: a multi-cause type with its own Is method; nothing is
	// claimed about Is after transfer here)
	g := gen.Default(str).With("umultiis", "umulticauser")
	g.XRate = 150 // (every layer is a reference here: wide and deep trees cost their square)
	if pbt.Thorough() {
		// (with the larger branch budgets of this tier an extreme tree costs
		// seconds; the first complete thorough run had four of sixteen shards
		// near their time limit)
		g.XRate = 800
	}
	g.WMulti = 2
	// Construct the feature: a multi-cause node whose branches are
	// generated chains / trees, below 0-3 wrappers.
	m := g.MultiOf(t, rapid.SampledFrom(g.Multi).Draw(t, "topmulti"))
	for i := range m.X {
		m.X[i] = g.Draw(t, rapid.IntRange(1, maxB).Draw(t, "branchbudget"))
	}
	if len(m.X) >= 1 && m.K != "goerrorfmulti" && rapid.IntRange(0, 2).Draw(t, "twin") == 0 {
		// Two branches of the same shape: several branches then match
		// the same As target / the same reference (first match wins).
		m.X = append(m.X, m.X[0].Clone())
	}
	s := m
	for i, n := 0, rapid.IntRange(0, 3).Draw(t, "wrappers"); i < n; i++ {
		w := g.WrapOf(t, rapid.SampledFrom(g.Wraps).Draw(t, "w"), s)
		for j := range w.X {
			w.X[j] = g.DrawLeaf(t)
		}
		s = w
	}
	c := &pbt.Case{Spec: s}
	c.SetInt("hops", rapid.IntRange(1, 2).Draw(t, "hops"))
	c.SetStr("receiver", rapid.SampledFrom([]string{"knowing", "knowing", "unknowing-all", "unknowing-multi"}).Draw(t, "receiver"))
	return c
}

func safeAs(f func(error, interface{}) bool, e error, target interface{}) (res bool, p string) {
	defer func() {
		if x := recover(); x != nil {
			p = fmt.Sprint(x)
		}
	}()
	return f(e, target), ""
}

func check(c *pbt.Case, r *pbt.R) {
	b := gen.BuildAll(c.Spec)
	e := b.Root
	vis, err := gen.Visible(c.Spec, e)
	if err != nil {
		r.Failf("model and implementation disagree on the tree structure", "%v", err)
		return
	}
	// References: every visible layer, the sentinels.
	refs := append([]gen.VNode(nil), vis...)
	for _, n := range gen.SentinelNames {
		vs, _ := gen.RefsOf(&gen.Spec{K: "sentinel", S: []string{n}})
		refs = append(refs, vs[0])
	}

	nested := 0
	for _, v := range vis {
		l := v.Layer()
		if len(l.Multi) == 0 {
			continue
		}
		nested++
		M := v.Obj
		// Unwrap treats a multi-cause error as a leaf.
		// (a type that also has a Cause() method is followed through it, as
		// the library documents; everything else below applies to it too)
		_, hasCause := M.(interface{ Cause() error })
		if !hasCause && (errors.UnwrapOnce(M) != nil || errors.Unwrap(M) != nil || goErr.Unwrap(M) != nil) {
			r.Failf("Unwrap of a multi-cause error is not nil", "%T in %s", M, c.Spec)
		}
		if !hasCause && !ref.SameVal(errors.UnwrapAll(M), M) {
			r.Failf("UnwrapAll does not stop at a multi-cause error", "%T in %s", M, c.Spec)
		}
		branches := errbase.UnwrapMulti(M)
		// Join: branches are the non-nil arguments, in order; text = joined by newlines.
		if l.Spec.K == "join" || l.Spec.K == "subjoin" || l.Spec.K == "gojoin" {
			var texts []string
			for i, x := range l.Spec.X {
				// (SameVal: == where defined, DeepEqual for values that cannot be compared)
				if i >= len(branches) || !ref.SameVal(branches[i], b.Of[x]) {
					r.Failf("Join does not keep its non-nil arguments in order", "branch %d of %s", i, c.Spec)
				}
				texts = append(texts, b.Of[x].Error())
			}
			if got, want := M.Error(), strings.Join(texts, "\n"); got != want {
				r.Failf("Join text is not the branch texts joined by newlines", "got %q want %q\n%s", got, want, c.Spec)
			}
		}
		// Join copies its arguments: the caller's slice is left alone, and
		// what the caller does to it afterwards does not change the join.
		if l.Spec.K == "join" || l.Spec.K == "subjoin" {
			var xs []error
			for _, x := range l.Spec.X {
				xs = append(xs, b.Of[x])
			}
			args := gen.JoinArgs(l.Spec.I[0], xs)
			before := append([]error(nil), args...)
			var j, jn error
			if l.Spec.K == "join" {
				j = errors.Join(args...)
				jn = errors.UnwrapOnce(j) // below the stack annotation
			} else {
				j = join.Join(args...)
				jn = j
			}
			for i := range args {
				if !ref.SameVal(args[i], before[i]) {
					r.Failf("Join modifies the slice of its arguments", "position %d\n%s", i, c.Spec)
				}
			}
			wantText := j.Error()
			clobber := goErr.New("clobbered")
			for i := range args {
				args[i] = clobber
			}
			if j.Error() != wantText || len(errbase.UnwrapMulti(jn)) != len(xs) {
				r.Failf("a Join changes when the caller reuses the slice it was built from", "%q vs %q\n%s", j.Error(), wantText, c.Spec)
			}
			if ok, _ := obs.SafeIs(j, clobber); ok {
				r.Failf("a Join changes when the caller reuses the slice it was built from", "Is(join, later content of the slice)\n%s", c.Spec)
			}
		}
		// Is succeeds exactly when it succeeds on the error itself or on a branch.
		for _, rf := range refs {
			got, p := obs.SafeIs(M, rf.Obj)
			if p != nil {
				r.Failf("Is panics on a multi-cause error", "%v\n%s", p, c.Spec)
				continue
			}
			want := gen.ModelIs([]gen.VNode{v}, rf, true) // the node itself
			for _, br := range branches {
				if ok, _ := obs.SafeIs(br, rf.Obj); ok {
					want = true
				}
			}
			if got != want {
				r.Failf(fmt.Sprintf("Is on a multi-cause error is not (self or some branch): Is=%v", got),
					"multi node %s (%T)\nr = %s layer %d (%s) text %q\ne = %s", l.Spec.K, M, rf.Ls[0].Spec, rf.I, rf.Layer().Typ, rf.Text(), c.Spec)
			}
			if ia := errors.IsAny(M, rf.Obj); ia != got {
				r.Failf("IsAny differs from Is on a multi-cause error", "%s", c.Spec)
			}
		}
	}
	// Whole tree: Is against the model; As against the reference As.
	for _, rf := range refs {
		got, p := obs.SafeIs(e, rf.Obj)
		if p != nil {
			r.Failf("Is panics on a multi-cause error", "%v\n%s", p, c.Spec)
			continue
		}
		if want := gen.ModelIs(vis, rf, true); got != want {
			r.Failf(fmt.Sprintf("Is disagrees with the tree model: Is=%v", got), "r = %s layer %d (%s)\ne = %s", rf.Ls[0].Spec, rf.I, rf.Layer().Typ, c.Spec)
		}
	}
	for i, mk := range ref.AsTargets() {
		a, b2 := mk(), mk()
		ra, p1 := safeAs(errors.As, e, a)
		rb, p2 := safeAs(ref.As, e, b2)
		if p1 != "" || p2 != "" {
			if p1 != p2 {
				r.Failf("As panics", "target %d: lib %q ref %q\n%s", i, p1, p2, c.Spec)
			}
			continue
		}
		if ra != rb {
			r.Failf(fmt.Sprintf("As differs from the reference (first match in branch order): As=%v", ra), "target %T\n%s", a, c.Spec)
		} else if ra && !ref.SameVal(ref.Elem(a), ref.Elem(b2)) {
			r.Failf("As assigns a different value than the reference (first match in branch order)", "target %T: %v vs %v\n%s", a, ref.Elem(a), ref.Elem(b2), c.Spec)
		}
	}

	// %+v shows every branch.
	out := fmt.Sprintf("%+v", e)
	if errbase.Formattable(e) != nil {
		out = fmt.Sprintf("%+v", errbase.Formattable(e))
	}
	outToks := map[string]bool{}
	for _, tk := range tokRe.FindAllString(out, -1) {
		outToks[tk] = true
	}
	for _, v := range vis {
		for _, tk := range tokRe.FindAllString(v.Obj.Error(), -1) {
			if !outToks[tk] {
				r.Failf("%+v does not show the text of every branch", "token %s of layer %T missing\n%s\n%s", tk, v.Obj, c.Spec, out)
			}
		}
	}
	if pv, err := ref.ParseVerbose(out); err != nil {
		r.Failf("%+v of a multi-cause tree cannot be parsed", "%v\n%s\n%s", err, c.Spec, out)
	} else if len(pv.Entries) != len(vis) {
		r.Failf("%+v does not have one entry per layer of a multi-cause tree", "entries %d layers %d\n%s\n%s", len(pv.Entries), len(vis), c.Spec, out)
	}

	// Transfer. (Not for the multi-cause type that also has a Cause()
	// method: the library sends it as a wrapper around that single cause,
	// so its other branches do not travel - the reason why such types
	// are outside the transfer properties, DESIGN 2.2.)
	want := obs.Shape(e).Str(false)
	cur := wire.Encode(e)
	hops := c.Int("hops")
	if c.Spec.Has("umulticauser") {
		hops = 0
	}
	for i := 1; i <= hops; i++ {
		var unknown []string
		switch c.S["receiver"] {
		case "unknowing-all":
			enc := wire.Unmarshal(cur)
			unknown = wire.Families(&enc)
		case "unknowing-multi":
			enc := wire.Unmarshal(cur)
			for _, f := range wire.Families(&enc) {
				if strings.Contains(f, "oin") || strings.Contains(f, "ulti") || strings.Contains(f, "wrapErrors") {
					unknown = append(unknown, f)
				}
			}
		}
		// F14/F15 (known findings of C04) change the text shown by an
		// unknowing process for barriers and gRPC status errors; they
		// are C04's business, so these families stay known here.
		var keep []string
		for _, f := range unknown {
			if strings.HasSuffix(f, "barriers.barrierErr") || strings.Contains(f, "status.") {
				continue
			}
			keep = append(keep, f)
		}
		unknown = keep
		check := func(at string, x error) {
			if got := obs.Shape(x).Str(false); got != want {
				r.Failf("branch count, order or per-branch text differs after transfer ("+at+")", "hop %d\nwant:\n%s\ngot:\n%s\n%s", i, want, got, c.Spec)
			}
			// %+v shows every branch there too, through the received
			// error's own Format method and through Formattable.
			outs := []string{fmt.Sprintf("%+v", errbase.Formattable(x))}
			// (the received error's own Format only when it is a type of the
			// library - opaque values included: a foreign type's Format method,
			// e.g. that of pkg/errors, prints what it likes)
			if tn := fmt.Sprintf("%T", x); strings.HasPrefix(tn, "*errbase.") || strings.HasPrefix(tn, "*join.") || strings.HasPrefix(tn, "*withstack.") || strings.HasPrefix(tn, "*errutil.") {
				outs = append(outs, fmt.Sprintf("%+v", x))
			}
			for _, out := range outs {
				seen := map[string]bool{}
				for _, tk := range tokRe.FindAllString(out, -1) {
					seen[tk] = true
				}
				for _, v := range vis {
					for _, tk := range tokRe.FindAllString(v.Obj.Error(), -1) {
						if !seen[tk] {
							r.Failf("%+v does not show the text of every branch after transfer ("+at+")", "token %s of layer %T missing\n%s\n%s", tk, v.Obj, c.Spec, out)
						}
					}
				}
			}
		}
		if len(unknown) > 0 {
			cur = wire.Through(cur, unknown, func(mid error) { check("at an unknowing receiver", mid) })
		} else {
			cur = wire.Encode(wire.Decode(cur))
		}
		check("at a knowing receiver", wire.Decode(cur))
	}

	if nested >= 1 && len(vis) >= 4 {
		r.NonTrivial()
	}
	r.St.CountN("multi-cause nodes", nested)
	r.St.CountN("visible layers", len(vis))
	r.Count("receiver", c.S["receiver"])
	for _, n := range c.Spec.Nodes() {
		if gen.IsMultiKind(n.K) {
			r.Count("multi kinds", n.K)
			if len(n.I) > 0 && n.I[0] != 0 {
				r.Count("features", "nil arguments to Join")
			}
		}
	}
}

var prop = &pbt.Prop{ID: "C13", Part: "multi-tree", Draw: draw, Check: check,
	Valid: func(c *pbt.Case) bool {
		return gen.SpecRegular(c.Spec) && c.Spec.Has(append(append([]string{}, gen.MultiKinds...), gen.ExtraMultiKinds...)...)
	}}

func TestProp(t *testing.T) { pbt.Run(t, prop) }

// TestJoinNils: Join drops nil arguments and returns nil when nothing remains.
func TestJoinNils(t *testing.T) {
	st := pbt.NewStats("join-nils")
	defer st.Write()
	p := &pbt.Prop{ID: "C13", Part: "join-nils"}
	n := 0
	for k := 0; k <= 6; k++ {
		args := make([]error, k)
		for _, f := range []func(...error) error{errors.Join, join.Join, func(a ...error) error { return errors.JoinWithDepth(0, a...) }} {
			st.Eval()
			n++
			if f(args...) != nil {
				pbt.Fail(t, p, st, &pbt.Case{N: map[string]int{"nils": k}}, &pbt.Failure{Sig: "Join of only nil arguments is not nil", Msg: fmt.Sprintf("%d nils", k)})
			}
			st.NT(uint64(n), func() interface{} { return map[string]int{"nil arguments": k} })
		}
	}
	st.Exhaustive = true
}
