//go:build verif

package c04

import (
	"bytes"
	"fmt"
	"math"
	"testing"

	"github.com/cockroachdb/errors"
	"github.com/cockroachdb/errors/errorspb"
	"pgregory.net/rapid"

	"verif/gen"
	"verif/obs"
	"verif/pbt"
	"verif/wire"
)

// Messages the library itself does not produce today but that are
// legal on the wire - what a newer peer may send, or what reaches a
// process whose decoder for a type it knows declines the payload:
//
//   - every type unknown, and message-type values other than the two
//     defined ones on some wrappers: re-encoding must reproduce the
//     message byte for byte;
//   - the payload of registered types removed, so that their decoders
//     decline: the layer (and, for a multi-cause type, every branch)
//     must still be there, and re-encoding must reproduce the message.
func drawVar(t *rapid.T) *pbt.Case {
	c := &pbt.Case{}
	g := gen.Default(gen.Regular()).Boost(6, "rmulti", "risleaf", "rleaf", "rwrapfull", "hint", "tags", "httpcode")
	g.WMulti = 2
	g.XRate = 0
	c.Spec = g.Draw(t, rapid.IntRange(2, 10).Draw(t, "budget"))
	c.SetStr("variation", rapid.SampledFrom([]string{"message-types", "declined-payloads"}).Draw(t, "variation"))
	c.SetInt("seed", rapid.IntRange(0, 1<<20).Draw(t, "seed"))
	return c
}

func checkVar(c *pbt.Case, r *pbt.R) {
	e0 := gen.Build(c.Spec)
	enc := wire.Unmarshal(wire.Encode(e0))
	seed := c.Int("seed")
	pick := func(n int) int { seed = seed*1103515245 + 12345; return (seed >> 8 & 0xffff) % n }
	changed := 0
	switch c.S["variation"] {
	case "message-types":
		wire.Rename(&enc, func(string) bool { return true })
		var rec func(e *errorspb.EncodedError)
		rec = func(e *errorspb.EncodedError) {
			if w := e.GetWrapper(); w != nil {
				if pick(2) == 0 {
					w.MessageType = []errorspb.MessageType{2, 3, -1, math.MaxInt32, 7}[pick(5)]
					changed++
				}
				rec(&w.Cause)
			} else if l := e.GetLeaf(); l != nil {
				for _, x := range l.MultierrorCauses {
					rec(x)
				}
			}
		}
		rec(&enc)
	case "declined-payloads":
		wire.VisitDetails(&enc, func(d *errorspb.EncodedErrorDetails, _ bool) {
			f := d.ErrorTypeMark.FamilyName
			// (not barriers, secondary errors and status errors: their payload is
			// the hidden error resp. the status itself - F14/F15 are about those)
			if d.FullDetails != nil && !bytes.Contains([]byte(d.FullDetails.TypeUrl), []byte("EncodedError")) &&
				!bytes.Contains([]byte(f), []byte("status.")) && pick(2) == 0 {
				d.FullDetails = nil
				changed++
			}
		})
	}
	recv := wire.Marshal(&enc)
	mid := errors.DecodeError(wire.Ctx, enc)
	if mid == nil {
		r.Failf("an unusual but complete message decodes to nil", "%s\n%s", c.S["variation"], c.Spec)
		return
	}
	// every layer and branch of the message is there
	count := 0
	wire.VisitDetails(&enc, func(*errorspb.EncodedErrorDetails, bool) { count++ })
	nested := 0
	var countTop func(e *errorspb.EncodedError)
	countTop = func(e *errorspb.EncodedError) {
		nested++
		if w := e.GetWrapper(); w != nil {
			countTop(&w.Cause)
		} else if l := e.GetLeaf(); l != nil {
			for _, x := range l.MultierrorCauses {
				countTop(x)
			}
		}
	}
	countTop(&enc)
	if got := len(obs.AllNodes(mid)); got != nested {
		r.Failf("a layer or branch of the received message is missing from the decoded error: "+c.S["variation"], "message has %d nodes, error %d\nspec %s\n%s", nested, got, c.Spec, wire.Text(recv))
	}
	if c.S["variation"] == "declined-payloads" {
		if a, b := obs.Shape(e0).Str(false), obs.Shape(mid).Str(false); a != b {
			r.Failf("text or shape differs when a decoder declines its payload", "want:\n%s\ngot:\n%s\nspec %s", a, b, c.Spec)
		}
	}
	out := wire.Encode(mid)
	if !bytes.Equal(wire.BlankBarrierReportables(out), wire.BlankBarrierReportables(recv)) {
		r.Failf("re-encoding does not reproduce an unusual but complete message: "+c.S["variation"], "spec %s\nreceived:\n%s\n-----\nre-encoded:\n%s", c.Spec, wire.Text(recv), wire.Text(out))
	}
	if changed > 0 {
		r.NonTrivial()
	}
	r.Count("variation", c.S["variation"])
	r.St.CountN("nodes changed", changed)
	_ = fmt.Sprint
}

var varProp = &pbt.Prop{ID: "C04", Part: "wire-variations", Draw: drawVar, Check: checkVar,
	Valid: func(c *pbt.Case) bool { return gen.SpecRegular(c.Spec) }}

func TestVariations(t *testing.T) { pbt.Run(t, varProp) }
