//go:build verif

// C04 — unknown error types pass through a process losslessly.
package c04

import (
	"bytes"
	"fmt"
	"strings"
	"testing"

	"github.com/cockroachdb/errors"
	"github.com/cockroachdb/errors/errorspb"
	"pgregory.net/rapid"

	"verif/gen"
	"verif/obs"
	"verif/pbt"
	"verif/wire"
)

func TestMain(m *testing.M) { pbt.Main(m) }

const textSig = "text differs at an unknowing process: family="

func shortFam(f string) string {
	f = strings.TrimSuffix(f, wire.UnkSuffix)
	return f[strings.LastIndex(f, "/")+1:]
}

func draw(t *rapid.T) *pbt.Case {
	maxB := 10
	if pbt.Thorough() {
		maxB = 20
	}
	c := &pbt.Case{}
	c.Spec = gen.Draw(t, gen.Regular(), rapid.IntRange(1, maxB).Draw(t, "budget"))
	gen.SprinkleEmpty(t, c.Spec)
	enc := errors.EncodeError(wire.Ctx, gen.Build(c.Spec))
	fams := wire.Families(&enc)
	// Known findings are excluded by construction: the families named
	// by a known finding are never made unknown.
	excluded := pbt.KnownWithPrefix("C04", textSig)
	pickFrom := fams[:0:0]
	for _, f := range fams {
		skip := false
		for _, x := range excluded {
			if shortFam(f) == x {
				skip = true
			}
		}
		if !skip {
			pickFrom = append(pickFrom, f)
		}
	}
	sub := func(label string) []string {
		var u []string
		switch rapid.SampledFrom([]string{"all", "some", "some", "none"}).Draw(t, label+"mode") {
		case "all":
			u = append(u, pickFrom...)
		case "some":
			for _, f := range pickFrom {
				if rapid.Bool().Draw(t, label) {
					u = append(u, f)
				}
			}
		}
		return u
	}
	c.SetList("unknown", sub("unk"))
	if rapid.IntRange(0, 3).Draw(t, "two") == 0 {
		c.SetInt("mids", 2)
		c.SetList("unknown2", sub("unk2"))
	} else {
		c.SetInt("mids", 1)
	}
	return c
}

type wnode struct {
	d    *errorspb.EncodedErrorDetails
	kids []*wnode
}

// wireTree mirrors the visible tree of an encoded error.
func wireTree(enc *errorspb.EncodedError) *wnode {
	if w := enc.GetWrapper(); w != nil {
		return &wnode{d: &w.Details, kids: []*wnode{wireTree(&w.Cause)}}
	}
	l := enc.GetLeaf()
	n := &wnode{d: &l.Details}
	for _, c := range l.MultierrorCauses {
		n.kids = append(n.kids, wireTree(c))
	}
	return n
}

// firstTextDiff finds the deepest node whose text differs although
// all its children agree: the layer responsible for the difference.
func firstTextDiff(want, got *obs.Node, w *wnode) (fam string, wantT, gotT string, found bool) {
	if len(want.Kids) != len(got.Kids) || len(w.kids) != len(want.Kids) {
		return w.d.ErrorTypeMark.FamilyName, want.Text, got.Text, true
	}
	for i := range want.Kids {
		if f, a, b, ok := firstTextDiff(want.Kids[i], got.Kids[i], w.kids[i]); ok {
			return f, a, b, true
		}
	}
	if want.Text != got.Text {
		return w.d.ErrorTypeMark.FamilyName, want.Text, got.Text, true
	}
	return "", "", "", false
}

func checkMid(c *pbt.Case, r *pbt.R, sim string, e0 error, recv []byte, mid error, unknown map[string]bool) {
	want, got := obs.Shape(e0), obs.Shape(mid)
	wenc := wire.Unmarshal(recv)
	wt := wireTree(&wenc)
	if want.Str(false) != got.Str(false) {
		fam, a, b, _ := firstTextDiff(want, got, wt)
		r.Failf(textSig+shortFam(fam), "%s: unknown=%v\nresponsible layer %s: origin text %q, at the unknowing process %q\nspec %s\nwant:\n%s\ngot:\n%s",
			sim, c.L["unknown"], fam, a, b, c.Spec, want.Str(true), got.Str(true))
		return
	}
	// Type names and marks of every layer are the origin's (computed
	// at the origin, not read back from the wire).
	var recO func(o, n *obs.Node)
	recO = func(o, n *obs.Node) {
		so, sn := errors.GetSafeDetails(o.Err), errors.GetSafeDetails(n.Err)
		// ... and the safe details of a layer this process holds as an
		// opaque value are the origin's (whatever the sender put on the wire).
		// (every detail the origin reports; an encoder may put more on the wire
		// than the type's own SafeDetails, e.g. the gRPC code)
		missing := false
		for _, d := range so.SafeDetails {
			found := false
			for _, x := range sn.SafeDetails {
				if x == d {
					found = true
				}
			}
			if !found {
				missing = true
			}
		}
		// (first intermediary only: a process that knows barriers or secondary
		// errors recomputes their details, which embed a rendering of the hidden
		// error as that process sees it, so later ones receive other strings)
		if strings.Contains(sim, "stage 1") && strings.Contains(fmt.Sprintf("%T", n.Err), "errbase.opaque") && missing {
			r.Failf("opaque layer does not keep the origin's type name, mark or safe details",
				"%s: layer %s: safe details at the origin %.300q, here %.300q\nspec %s", sim, so.OriginalTypeName, so.SafeDetails, sn.SafeDetails, c.Spec)
		}
		if so.OriginalTypeName != sn.OriginalTypeName ||
			so.ErrorTypeMark.FamilyName != strings.TrimSuffix(sn.ErrorTypeMark.FamilyName, wire.UnkSuffix) ||
			so.ErrorTypeMark.Extension != sn.ErrorTypeMark.Extension {
			r.Failf("a layer does not keep the origin's type name or type mark at an unknowing process",
				"%s: origin %q %v, here %q %v (%T)\nspec %s", sim, so.OriginalTypeName, so.ErrorTypeMark, sn.OriginalTypeName, sn.ErrorTypeMark, n.Err, c.Spec)
		}
		for i := range o.Kids {
			if i < len(n.Kids) {
				recO(o.Kids[i], n.Kids[i])
			}
		}
	}
	recO(want, got)
	// Type names, marks and safe details of every opaque layer.
	var rec func(n *obs.Node, w *wnode)
	rec = func(n *obs.Node, w *wnode) {
		fam := strings.TrimSuffix(w.d.ErrorTypeMark.FamilyName, wire.UnkSuffix)
		if unknown[fam] {
			sd := errors.GetSafeDetails(n.Err)
			// (exactly what was received: the family as it stands on the wire)
			if sd.OriginalTypeName != w.d.OriginalTypeName ||
				sd.ErrorTypeMark.FamilyName != w.d.ErrorTypeMark.FamilyName ||
				sd.ErrorTypeMark.Extension != w.d.ErrorTypeMark.Extension ||
				strings.Join(sd.SafeDetails, "\x00") != strings.Join(w.d.ReportablePayload, "\x00") {
				r.Failf("opaque layer does not keep the origin's type name, mark or safe details",
					"%s: layer %s (%T): got %+v want name=%q mark=%v payload=%q\nspec %s", sim, fam, n.Err, sd, w.d.OriginalTypeName, w.d.ErrorTypeMark, w.d.ReportablePayload, c.Spec)
			}
		}
		for i := range n.Kids {
			if i < len(w.kids) {
				rec(n.Kids[i], w.kids[i])
			}
		}
	}
	rec(got, wt)
}

func check(c *pbt.Case, r *pbt.R) {
	e0 := gen.Build(c.Spec)
	w0 := wire.Encode(e0)
	direct := wire.Decode(w0)

	stages := [][]string{c.L["unknown"]}
	if c.Int("mids") == 2 {
		stages = append(stages, c.L["unknown2"])
	}

	// Simulation A: wire renaming (hook-free).
	// Simulation B: true registry restriction (build-tag hook).
	curA, curB := w0, w0
	for si, unk := range stages {
		unknown := map[string]bool{}
		for _, u := range unk {
			unknown[u] = true
		}
		// A
		wr := wire.Unmarshal(curA)
		wire.Rename(&wr, func(f string) bool { return unknown[f] })
		recvA := wire.Marshal(&wr)
		midA := errors.DecodeError(wire.Ctx, wr)
		checkMid(c, r, fmt.Sprintf("rename stage %d", si+1), e0, recvA, midA, unknown)
		reA := wire.Encode(midA)
		if !bytes.Equal(wire.BlankBarrierReportables(reA), wire.BlankBarrierReportables(recvA)) {
			r.Failf("re-encoding at an unknowing process differs from what it received", "rename stage %d: unknown=%v spec %s\nreceived:\n%s\n-----\nre-encoded:\n%s", si+1, unk, c.Spec, wire.Text(recvA), wire.Text(reA))
		}
		back := wire.Unmarshal(reA)
		wire.Restore(&back)
		curA = wire.Marshal(&back)
		// B
		recvB := curB
		curB = wire.Through(recvB, unk, func(mid error) {
			checkMid(c, r, fmt.Sprintf("registry stage %d", si+1), e0, recvB, mid, unknown)
		})
		if !bytes.Equal(wire.BlankBarrierReportables(curB), wire.BlankBarrierReportables(recvB)) {
			r.Failf("re-encoding at an unknowing process differs from what it received", "registry stage %d: unknown=%v spec %s\nreceived:\n%s\n-----\nre-encoded:\n%s", si+1, unk, c.Spec, wire.Text(recvB), wire.Text(curB))
		}
	}
	if !bytes.Equal(wire.BlankBarrierReportables(curA), wire.BlankBarrierReportables(curB)) {
		r.Failf("the two simulations of an unknowing process disagree", "spec %s unknown=%v", c.Spec, c.L["unknown"])
	}

	// The final, knowing receiver.
	for _, fin := range []struct {
		name string
		b    []byte
	}{{"rename", curA}, {"registry", curB}} {
		final := wire.Decode(fin.b)
		if a, b := fmt.Sprintf("%+v", final), fmt.Sprintf("%+v", direct); a != b {
			r.Failf("knowing receiver after an unknowing intermediary differs from direct transfer: %+v",
				"%s: unknown=%v spec %s\nvia intermediary:\n%s\n----\ndirect:\n%s", fin.name, c.L["unknown"], c.Spec, a, b)
		}
		if d, differs := obs.DiffKV(obs.Snapshot(direct, obs.Opt{}), obs.Snapshot(final, obs.Opt{})); differs {
			r.Failf("knowing receiver after an unknowing intermediary differs from direct transfer: accessor "+obs.DiffKey(obs.Snapshot(direct, obs.Opt{}), obs.Snapshot(final, obs.Opt{})),
				"%s: %s\nunknown=%v spec %s", fin.name, d, c.L["unknown"], c.Spec)
		}
		refs := append([]error{}, obs.AllNodes(e0)...)
		for _, n := range gen.SentinelNames {
			refs = append(refs, gen.Sentinels[n])
		}
		for _, ref := range refs {
			a, p1 := obs.SafeIs(direct, ref)
			b, p2 := obs.SafeIs(final, ref)
			if p1 != nil || p2 != nil {
				continue // C08's subject
			}
			if a != b {
				r.Failf("knowing receiver after an unknowing intermediary differs from direct transfer: Is",
					"%s: Is(direct, %T %q)=%v, via intermediary %v\nunknown=%v spec %s", fin.name, ref, ref, a, b, c.L["unknown"], c.Spec)
			}
		}
	}

	// Classification.
	custom := 0
	for _, u := range c.L["unknown"] {
		if strings.Contains(u, "cockroachdb/errors/") {
			custom++
		}
	}
	if custom > 0 {
		r.NonTrivial()
	}
	r.St.CountN("unknown families", len(c.L["unknown"]))
	r.St.CountN("intermediaries", c.Int("mids"))
	for _, u := range c.L["unknown"] {
		r.Count("families made unknown", shortFam(u))
	}
	for _, x := range pbt.KnownWithPrefix("C04", textSig) {
		for _, f := range wire.Families(func() *errorspb.EncodedError { e := wire.Unmarshal(w0); return &e }()) {
			if shortFam(f) == x {
				r.St.Exclude(textSig + x + " (family present, never made unknown)")
			}
		}
	}
}

var prop = &pbt.Prop{ID: "C04", Part: "passthrough", Draw: draw, Check: check,
	Valid: func(c *pbt.Case) bool { return gen.SpecRegularOrEmpty(c.Spec) }}

func TestProp(t *testing.T) { pbt.Run(t, prop) }
