//go:build verif

package c03

import (
	"testing"

	"verif/pbt"
)

// FuzzTaint: coverage-guided search of the same taint property.
func FuzzTaint(f *testing.F) {
	pbt.Fuzz(f, Prop)
}
