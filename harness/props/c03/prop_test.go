//go:build verif

// C03 — unsafe strings never reach PII-free outputs.
package c03

import (
	"strings"
	"testing"
	"unicode/utf8"

	"github.com/cockroachdb/errors"
	"pgregory.net/rapid"

	"verif/gen"
	"verif/obs"
	"verif/pbt"
	"verif/wire"
)

func TestMain(m *testing.M) { pbt.Main(m) }

func Draw(t *rapid.T) *pbt.Case {
	maxB := 8
	if pbt.Thorough() {
		maxB = 16
	}
	c := &pbt.Case{}
	sg := gen.Hostile()
	alpha := rapid.SampledFrom([]string{"hostile", "hostile", "hostile", "regular"}).Draw(t, "alphabet")
	if alpha == "regular" {
		sg = gen.Regular()
	}
	c.SetStr("alphabet", alpha)
	c.Spec = gen.Default(sg).With("netopsrc").Draw(t, rapid.IntRange(1, maxB).Draw(t, "budget"))
	c.SetInt("sentinel-prefixed", gen.SentinelPrefix(t, c.Spec))
	c.SetInt("hops", rapid.IntRange(0, 2).Draw(t, "hops"))
	if rapid.IntRange(0, 3).Draw(t, "legacy") == 0 {
		c.SetInt("legacy", 1)
	}
	switch rapid.SampledFrom([]string{"none", "all", "some"}).Draw(t, "unknowing") {
	case "all":
		c.SetInt("unknowing", 1)
	case "some":
		c.SetInt("unknowing", 2)
		c.SetInt("mask", rapid.IntRange(1, 1<<16-1).Draw(t, "mask"))
	}
	return c
}

func sinkClass(name string) string {
	for _, p := range []string{"redact %v", "redact %+v", "safedetails", "sentry message", "sentry exception", "sentry event json", "sentry extra", "wire reportable"} {
		if strings.HasPrefix(name, p) {
			return p
		}
	}
	return name
}

func Check(c *pbt.Case, r *pbt.R) {
	e0 := gen.Build(c.Spec)
	taint := gen.Classify(c.Spec)
	unsafe := taint.UnsafeOnly()

	scan := func(where string, e error) {
		for _, s := range obs.Sinks(e) {
			for _, tk := range gen.Tokens(s.Text) {
				if unsafe[tk] {
					r.Failf("unsafe string reaches a PII-free output: "+sinkClass(s.Name)+" ("+where+")",
						"token %s in %q\nspec %s\noutput: %.1500q", tk, s.Name, c.Spec, s.Text)
				}
			}
		}
	}
	scan("local", e0)
	if c.Int("legacy") == 1 {
		// The same error as a peer running the previous version of the
		// library sends it: barriers under their old type name, with a
		// plain message (all of it unsafe at the receiver).
		l := wire.FromLegacyBarrierPeer(e0, gen.BarrierTexts(c.Spec, e0))
		scan("received from a peer with the previous barrier format", l)
		l2, _ := wire.Hop(errors.Wrap(l, "rewrapped"))
		scan("received from a peer with the previous barrier format, rewrapped and forwarded", l2)
		r.Count("features", "legacy barrier peer")
	}
	e := e0
	for i := 1; i <= c.Int("hops"); i++ {
		e, _ = wire.Hop(e)
		scan("after transfer", e)
	}
	if u := c.Int("unknowing"); u != 0 {
		b := wire.Encode(e)
		enc := wire.Unmarshal(b)
		fams := wire.Families(&enc)
		var unknown []string
		for i, f := range fams {
			if u == 1 || c.Int("mask")&(1<<(i%16)) != 0 {
				unknown = append(unknown, f)
			}
		}
		isUnk := map[string]bool{}
		for _, f := range unknown {
			isUnk[f] = true
		}
		// Simulation A: wire renaming.
		wire.Rename(&enc, func(f string) bool { return isUnk[f] })
		mid := errors.DecodeError(wire.Ctx, enc)
		scan("at an unknowing process", mid)
		// Simulation B: registry restriction.
		var out []byte
		wire.At(unknown, func() {
			m := wire.Decode(b)
			scan("at an unknowing process", m)
			out = wire.Encode(m)
		})
		scan("after an unknowing intermediary", wire.Decode(out))
		r.St.CountN("unknown families", len(unknown))
	}

	hostileInUnsafe := false
	for _, n := range c.Spec.Nodes() {
		for _, s := range n.S {
			if strings.ContainsAny(s, "‹›\n\x00") || !validUTF8(s) {
				for _, tk := range gen.Tokens(s) {
					if unsafe[tk] {
						hostileInUnsafe = true
					}
				}
			}
		}
	}
	if len(unsafe) > 0 && len(taint.Safe) > 0 && (hostileInUnsafe || c.S["alphabet"] == "regular") {
		r.NonTrivial()
	}
	r.Count("alphabet", c.S["alphabet"])
	r.St.CountN("hops", c.Int("hops"))
	r.St.CountN("leaves claiming a sentinel whose text they start with", c.Int("sentinel-prefixed"))
	r.St.CountN("unsafe-only tokens", len(unsafe))
	r.Count("unknowing", []string{"none", "all", "some"}[c.Int("unknowing")])
	for k := range c.Spec.Kinds() {
		r.Count("kinds", k)
	}
}

func validUTF8(s string) bool { return utf8.ValidString(s) }

var Prop = &pbt.Prop{ID: "C03", Part: "taint", Draw: Draw, Check: Check}

func TestProp(t *testing.T) { pbt.Run(t, Prop) }
