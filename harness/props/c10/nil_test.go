//go:build verif

package c10

import (
	"context"
	"fmt"
	"os"
	"sort"
	"testing"

	"github.com/cockroachdb/errors"
	"github.com/cockroachdb/errors/assert"
	"github.com/cockroachdb/errors/barriers"
	"github.com/cockroachdb/errors/contexttags"
	"github.com/cockroachdb/errors/domains"
	"github.com/cockroachdb/errors/errutil"
	"github.com/cockroachdb/errors/extgrpc"
	"github.com/cockroachdb/errors/exthttp"
	"github.com/cockroachdb/errors/grpc/status"
	"github.com/cockroachdb/errors/hintdetail"
	"github.com/cockroachdb/errors/issuelink"
	"github.com/cockroachdb/errors/join"
	"github.com/cockroachdb/errors/markers"
	"github.com/cockroachdb/errors/safedetails"
	"github.com/cockroachdb/errors/secondary"
	"github.com/cockroachdb/errors/telemetrykeys"
	"github.com/cockroachdb/errors/withstack"
	"github.com/cockroachdb/logtags"
	"github.com/cockroachdb/redact"

	"verif/obs"
	"verif/pbt"
	"verif/scan"
	"verif/wire"
)

var other = errors.New("other")
var tctx = logtags.AddTag(context.Background(), "k", "v")

// wrapperNil: every exported constructor that takes an error, called
// with a nil error. Keys are "<package dir>.<Func>".
var wrapperNil = map[string]func() error{
	"errors.Wrap":                             func() error { return errors.Wrap(nil, "x") },
	"errors.Wrapf":                            func() error { return errors.Wrapf(nil, "x %d", 1) },
	"errors.WrapWithDepth":                    func() error { return errors.WrapWithDepth(1, nil, "x") },
	"errors.WrapWithDepthf":                   func() error { return errors.WrapWithDepthf(1, nil, "x") },
	"errors.WithMessage":                      func() error { return errors.WithMessage(nil, "x") },
	"errors.WithMessagef":                     func() error { return errors.WithMessagef(nil, "x") },
	"errors.WithStack":                        func() error { return errors.WithStack(nil) },
	"errors.WithStackDepth":                   func() error { return errors.WithStackDepth(nil, 1) },
	"errors.WithHint":                         func() error { return errors.WithHint(nil, "x") },
	"errors.WithHintf":                        func() error { return errors.WithHintf(nil, "x") },
	"errors.WithDetail":                       func() error { return errors.WithDetail(nil, "x") },
	"errors.WithDetailf":                      func() error { return errors.WithDetailf(nil, "x") },
	"errors.WithSafeDetails":                  func() error { return errors.WithSafeDetails(nil, "x") },
	"errors.WithTelemetry":                    func() error { return errors.WithTelemetry(nil, "x") },
	"errors.WithDomain":                       func() error { return errors.WithDomain(nil, "x") },
	"errors.WithIssueLink":                    func() error { return errors.WithIssueLink(nil, errors.IssueLink{}) },
	"errors.WithContextTags":                  func() error { return errors.WithContextTags(nil, tctx) },
	"errors.WithAssertionFailure":             func() error { return errors.WithAssertionFailure(nil) },
	"errors.Mark":                             func() error { return errors.Mark(nil, other) },
	"errors.WithSecondaryError":               func() error { return errors.WithSecondaryError(nil, other) },
	"errors.CombineErrors":                    func() error { return errors.CombineErrors(nil, nil) },
	"errors.Handled":                          func() error { return errors.Handled(nil) },
	"errors.Opaque":                           func() error { return errors.Opaque(nil) },
	"errors.HandledWithMessage":               func() error { return errors.HandledWithMessage(nil, "x") },
	"errors.HandledInDomain":                  func() error { return errors.HandledInDomain(nil, "x") },
	"errors.HandledInDomainWithMessage":       func() error { return errors.HandledInDomainWithMessage(nil, "x", "y") },
	"errors.HandleAsAssertionFailure":         func() error { return errors.HandleAsAssertionFailure(nil) },
	"errors.HandleAsAssertionFailureDepth":    func() error { return errors.HandleAsAssertionFailureDepth(1, nil) },
	"errors.NewAssertionErrorWithWrappedErrf": func() error { return errors.NewAssertionErrorWithWrappedErrf(nil, "x") },
	"errors.EnsureNotInDomain":                func() error { return errors.EnsureNotInDomain(nil, nil, "x") },
	"errors.EnsureNotInDomain(NoDomain forbidden)": func() error {
		return errors.EnsureNotInDomain(nil, func(errors.Domain, error) error { return errors.New("constructed for nil") }, domains.NoDomain)
	},
	"domains.EnsureNotInDomain(NoDomain forbidden)": func() error {
		return domains.EnsureNotInDomain(nil, func(domains.Domain, error) error { return errors.New("constructed for nil") }, domains.NoDomain, "x")
	},
	"errors.Join":                                   func() error { return errors.Join(nil, nil) },
	"errors.JoinWithDepth":                          func() error { return errors.JoinWithDepth(1, nil) },
	"assert.WithAssertionFailure":                   func() error { return assert.WithAssertionFailure(nil) },
	"barriers.Handled":                              func() error { return barriers.Handled(nil) },
	"barriers.HandledWithMessage":                   func() error { return barriers.HandledWithMessage(nil, "x") },
	"barriers.HandledWithMessagef":                  func() error { return barriers.HandledWithMessagef(nil, "x") },
	"barriers.HandledWithSafeMessage":               func() error { return barriers.HandledWithSafeMessage(nil, redact.Sprint("x")) },
	"contexttags.WithContextTags":                   func() error { return contexttags.WithContextTags(nil, tctx) },
	"domains.EnsureNotInDomain":                     func() error { return domains.EnsureNotInDomain(nil, nil, "x") },
	"domains.Handled":                               func() error { return domains.Handled(nil) },
	"domains.HandledInDomain":                       func() error { return domains.HandledInDomain(nil, "x") },
	"domains.HandledInDomainWithMessage":            func() error { return domains.HandledInDomainWithMessage(nil, "x", "y") },
	"domains.WithDomain":                            func() error { return domains.WithDomain(nil, "x") },
	"errutil.HandleAsAssertionFailure":              func() error { return errutil.HandleAsAssertionFailure(nil) },
	"errutil.HandleAsAssertionFailureDepth":         func() error { return errutil.HandleAsAssertionFailureDepth(1, nil) },
	"errutil.JoinWithDepth":                         func() error { return errutil.JoinWithDepth(1, nil, nil) },
	"errutil.NewAssertionErrorWithWrappedErrDepthf": func() error { return errutil.NewAssertionErrorWithWrappedErrDepthf(1, nil, "x") },
	"errutil.NewAssertionErrorWithWrappedErrf":      func() error { return errutil.NewAssertionErrorWithWrappedErrf(nil, "x") },
	"errutil.WithMessage":                           func() error { return errutil.WithMessage(nil, "x") },
	"errutil.WithMessagef":                          func() error { return errutil.WithMessagef(nil, "x") },
	"errutil.Wrap":                                  func() error { return errutil.Wrap(nil, "x") },
	"errutil.WrapWithDepth":                         func() error { return errutil.WrapWithDepth(1, nil, "x") },
	"errutil.WrapWithDepthf":                        func() error { return errutil.WrapWithDepthf(1, nil, "x") },
	"errutil.Wrapf":                                 func() error { return errutil.Wrapf(nil, "x") },
	"extgrpc.WrapWithGrpcCode":                      func() error { return extgrpc.WrapWithGrpcCode(nil, 3) },
	"exthttp.WrapWithHTTPCode":                      func() error { return exthttp.WrapWithHTTPCode(nil, 404) },
	"grpc/status.WrapErr":                           func() error { return status.WrapErr(3, "x", nil) },
	"grpc/status.WrapErrf":                          func() error { return status.WrapErrf(3, nil, "x") },
	"hintdetail.WithDetail":                         func() error { return hintdetail.WithDetail(nil, "x") },
	"hintdetail.WithDetailf":                        func() error { return hintdetail.WithDetailf(nil, "x") },
	"hintdetail.WithHint":                           func() error { return hintdetail.WithHint(nil, "x") },
	"hintdetail.WithHintf":                          func() error { return hintdetail.WithHintf(nil, "x") },
	"issuelink.WithIssueLink":                       func() error { return issuelink.WithIssueLink(nil, issuelink.IssueLink{}) },
	"join.Join":                                     func() error { return join.Join(nil, nil) },
	"markers.Mark":                                  func() error { return markers.Mark(nil, other) },
	"safedetails.WithSafeDetails":                   func() error { return safedetails.WithSafeDetails(nil, "x") },
	"secondary.CombineErrors":                       func() error { return secondary.CombineErrors(nil, nil) },
	"secondary.WithSecondaryError":                  func() error { return secondary.WithSecondaryError(nil, other) },
	"telemetrykeys.WithTelemetry":                   func() error { return telemetrykeys.WithTelemetry(nil, "x") },
	"withstack.WithStack":                           func() error { return withstack.WithStack(nil) },
	"withstack.WithStackDepth":                      func() error { return withstack.WithStackDepth(nil, 1) },
}

// Functions that take an error but are accessors, not constructors.
var notConstructors = map[string]bool{
	"errbase.UnwrapAll": true, "errbase.UnwrapOnce": true, "errors.Cause": true, "errors.Unwrap": true, "errors.UnwrapAll": true, "errors.UnwrapOnce": true,
}

// leafNonNil: every exported leaf constructor.
var leafNonNil = map[string]func() error{
	"domains.New":                       func() error { return domains.New("x") },
	"errors.AssertionFailedWithDepthf":  func() error { return errors.AssertionFailedWithDepthf(1, "x") },
	"errors.AssertionFailedf":           func() error { return errors.AssertionFailedf("x") },
	"errors.Errorf":                     func() error { return errors.Errorf("x") },
	"errors.New":                        func() error { return errors.New("x") },
	"errors.NewWithDepth":               func() error { return errors.NewWithDepth(1, "x") },
	"errors.NewWithDepthf":              func() error { return errors.NewWithDepthf(1, "x") },
	"errors.Newf":                       func() error { return errors.Newf("x") },
	"errors.UnimplementedError":         func() error { return errors.UnimplementedError(errors.IssueLink{}, "x") },
	"errors.UnimplementedErrorf":        func() error { return errors.UnimplementedErrorf(errors.IssueLink{}, "x") },
	"errutil.AssertionFailedWithDepthf": func() error { return errutil.AssertionFailedWithDepthf(1, "x") },
	"errutil.AssertionFailedf":          func() error { return errutil.AssertionFailedf("x") },
	"errutil.New":                       func() error { return errutil.New("x") },
	"errutil.NewWithDepth":              func() error { return errutil.NewWithDepth(1, "x") },
	"errutil.NewWithDepthf":             func() error { return errutil.NewWithDepthf(1, "x") },
	"errutil.Newf":                      func() error { return errutil.Newf("x") },
	"grpc/status.Error":                 func() error { return status.Error(3, "x") },
	"grpc/status.Errorf":                func() error { return status.Errorf(3, "x") },
	"issuelink.UnimplementedError":      func() error { return issuelink.UnimplementedError(issuelink.IssueLink{}, "x") },
	"issuelink.UnimplementedErrorf":     func() error { return issuelink.UnimplementedErrorf(issuelink.IssueLink{}, "x") },
	// The empty message is a message too.
	"errors.New(empty)":  func() error { return errors.New("") },
	"errors.Newf(empty)": func() error { return errors.Newf("") },
}

var decodeFuncs = map[string]bool{"errbase.DecodeError": true, "errors.DecodeError": true}

var nilProp = &pbt.Prop{ID: "C10", Part: "nil-grid", Check: func(c *pbt.Case, r *pbt.R) {
	name := c.S["constructor"]
	if f, ok := wrapperNil[name]; ok {
		var e error
		if p := obs.Try(func() { e = f() }); p != "" {
			r.Failf("a wrapper constructor panics on a nil error: "+name, "%s", p)
		}
		if e != nil {
			r.Failf("a wrapper constructor returns non-nil for a nil error: "+name, "%T %q; encoding it: %s", e, e, obs.Try(func() { wire.Encode(e) }))
		}
		return
	}
	if f, ok := leafNonNil[name]; ok {
		var e error
		if p := obs.Try(func() { e = f() }); p != "" {
			r.Failf("a leaf constructor panics: "+name, "%s", p)
		}
		if e == nil {
			r.Failf("a leaf constructor returns nil: "+name, "")
		}
		return
	}
	panic("unknown constructor " + name)
}}

// TestNilGrid: every exported wrapper constructor x nil, every leaf
// constructor -> non-nil; the tables are checked for completeness
// against a go/parser scan of the repository.
func TestNilGrid(t *testing.T) {
	if os.Getenv("VERIF_REPLAY") != "" {
		pbt.Run(t, nilProp)
		return
	}
	st := pbt.NewStats("nil-grid")
	defer st.Write()
	fs, err := scan.Exported(scan.LibraryDirs...)
	if err != nil {
		t.Fatal(err)
	}
	nw, nl := 0, 0
	for _, f := range fs {
		if len(f.Results) != 1 || f.Results[0] != "error" {
			continue
		}
		name := f.String()
		c := &pbt.Case{}
		c.SetStr("constructor", name)
		if f.FirstErr >= 0 {
			if notConstructors[name] {
				continue
			}
			nw++
			if _, ok := wrapperNil[name]; !ok {
				pbt.Fail(t, nilProp, st, c, &pbt.Failure{Sig: "nil grid is incomplete: no entry for " + name, Msg: fmt.Sprint(f.Params)})
			}
		} else {
			if decodeFuncs[name] {
				continue
			}
			nl++
			if _, ok := leafNonNil[name]; !ok {
				pbt.Fail(t, nilProp, st, c, &pbt.Failure{Sig: "leaf grid is incomplete: no entry for " + name, Msg: fmt.Sprint(f.Params)})
			}
		}
	}
	var names []string
	for n := range wrapperNil {
		names = append(names, n)
	}
	for n := range leafNonNil {
		names = append(names, n)
	}
	sort.Strings(names)
	for _, n := range names {
		c := &pbt.Case{}
		c.SetStr("constructor", n)
		f := nilProp.RunCheck(c, st)
		st.NT(c.Hash(), func() interface{} { return c })
		if f != nil {
			pbt.Fail(t, nilProp, st, c, f)
		}
	}
	// The documented special cases.
	st.Eval()
	if e := errors.CombineErrors(nil, other); e != other {
		pbt.Fail(t, nilProp, st, &pbt.Case{}, &pbt.Failure{Sig: "CombineErrors(nil, e) is not e"})
	}
	st.Eval()
	if e := errors.WithSecondaryError(other, nil); e != other {
		pbt.Fail(t, nilProp, st, &pbt.Case{}, &pbt.Failure{Sig: "WithSecondaryError(e, nil) is not e"})
	}
	st.Eval()
	if e := errors.CombineErrors(other, nil); e != other {
		pbt.Fail(t, nilProp, st, &pbt.Case{}, &pbt.Failure{Sig: "CombineErrors(e, nil) is not e"})
	}
	st.Notes = append(st.Notes, fmt.Sprintf("nil grid: %d wrapper constructors and %d leaf constructors found by the go/parser scan, all present in the tables", nw, nl))
	st.Exhaustive = true
}
