//go:build verif

// C10 — Error() composes predictably; annotations are transparent;
// nil stays nil.
package c10

import (
	goErr "errors"
	"fmt"
	"strings"
	"testing"

	"github.com/cockroachdb/errors"
	"github.com/cockroachdb/errors/join"
	"pgregory.net/rapid"

	"verif/gen"
	"verif/obs"
	"verif/pbt"
	"verif/ref"
)

func TestMain(m *testing.M) { pbt.Main(m) }

func draw(t *rapid.T) *pbt.Case {
	maxB := 12
	if pbt.Thorough() {
		maxB = 24
	}
	c := &pbt.Case{}
	c.Spec = gen.Default(gen.Regular()).With("netopsrc").Draw(t, rapid.IntRange(1, maxB).Draw(t, "budget"))
	// ("the cause text alone when the prefix is empty")
	gen.SprinkleEmpty(t, c.Spec)
	if rapid.IntRange(0, 7).Draw(t, "twin") == 0 {
		// a secondary error that is a separately created, equal twin of the main error
		c.Spec = &gen.Spec{K: rapid.SampledFrom([]string{"combine", "secondary"}).Draw(t, "sec"), C: c.Spec, X: []*gen.Spec{c.Spec.Clone()}}
	}
	return c
}

// sigF21 is the failure class of known finding F21: the library
// prints a net.OpError that has both Source and Addr as "src -> addr"
// where the error's own Error() has "src->addr", so any library
// wrapper around it changes the text.
const sigF21 = "Error() of a wrapper differs from the wrapped net.OpError (Source and Addr set) by ' -> ' for '->' only"

// sigF23 is the failure class of known finding F23.
const sigF23 = "Wrapf/Newf print an error-typed argument in full where fmt would apply the precision of the verb"

// arrowOnly tells whether got differs from want only by that spacing,
// at the addresses of the net.OpError nodes of the tree.
func arrowOnly(spec *gen.Spec, got, want string) bool {
	if got == want {
		return false
	}
	for _, n := range spec.Nodes() {
		if n.K == "netopsrc" {
			got = strings.ReplaceAll(got, n.S[2]+" -> "+n.S[3], n.S[2]+"->"+n.S[3])
		}
	}
	return got == want
}

func check(c *pbt.Case, r *pbt.R) {
	b := gen.BuildAll(c.Spec)
	e := b.Root
	vis, err := gen.Visible(c.Spec, e)
	if err != nil {
		r.Failf("model and implementation disagree on the layer structure", "%v", err)
		return
	}
	roles := map[gen.Role]int{}
	for _, v := range vis {
		l := v.Layer()
		if got := fmt.Sprintf("%T", v.Obj); got != l.Typ {
			r.Failf("a constructor builds another layer type than documented", "layer %d of %s: got %s, model %s\nspec %s", v.I, v.Ls[0].Spec.K, got, l.Typ, c.Spec)
		}
		if got, want := v.Obj.Error(), v.Text(); arrowOnly(c.Spec, got, want) {
			r.Failf(sigF21, "layer %d (%s, kind %s)\n got %q\nwant %q\nspec %s", v.I, l.Typ, l.Spec.K, got, want, c.Spec)
		} else if got != want {
			r.Failf("Error() differs from the compositional model: "+roleName(l.Role)+" layer "+l.Typ, "layer %d (%s, kind %s)\n got %q\nwant %q\nspec %s", v.I, l.Typ, l.Spec.K, got, want, c.Spec)
		}
		if l.Role != gen.Transparent {
			roles[l.Role]++
		}
	}
	// Root cause.
	var chainObjs []error
	for x := e; x != nil; x = errors.UnwrapOnce(x) {
		chainObjs = append(chainObjs, x)
	}
	if !ref.SameVal(errors.UnwrapAll(e), chainObjs[len(chainObjs)-1]) || !ref.SameVal(errors.Cause(e), chainObjs[len(chainObjs)-1]) {
		r.Failf("UnwrapAll/Cause is not the innermost layer", "spec %s", c.Spec)
	}
	// Per wrapper node: annotation-only and message wrappers keep the
	// root cause of what they wrap, and every Is / As match.
	var refs []error
	refs = append(refs, obs.AllNodes(e)...)
	for _, n := range gen.SentinelNames {
		refs = append(refs, gen.Sentinels[n])
	}
	for _, n := range c.Spec.Nodes() {
		if n.C == nil || gen.IsBarrierKind(n.K) {
			continue
		}
		w, inner := b.Of[n], b.Of[n.C]
		if w == nil || inner == nil {
			continue
		}
		if !ref.SameVal(errors.UnwrapAll(w), errors.UnwrapAll(inner)) {
			r.Failf("a wrapper changes the root cause", "kind %s\nspec %s", n.K, c.Spec)
		}
		annotationOnly := true
		for _, l := range gen.Chain1(n) {
			if l.Role != gen.Transparent {
				annotationOnly = false
			}
		}
		if annotationOnly && arrowOnly(c.Spec, w.Error(), inner.Error()) {
			r.Failf(sigF21, "kind %s: %q vs %q\nspec %s", n.K, w.Error(), inner.Error(), c.Spec)
		} else if annotationOnly && w.Error() != inner.Error() {
			r.Failf("an annotation-only wrapper changes Error()", "kind %s: %q vs %q\nspec %s", n.K, w.Error(), inner.Error(), c.Spec)
		}
		for _, rf := range refs {
			a, p1 := obs.SafeIs(inner, rf)
			if p1 != nil || !a {
				continue
			}
			bb, p2 := obs.SafeIs(w, rf)
			if p2 != nil {
				continue
			}
			if !bb {
				r.Failf("a wrapper loses an Is match of the wrapped error", "kind %s, reference %T %q\nspec %s", n.K, rf, rf, c.Spec)
			}
		}
		for _, mk := range ref.AsTargets() {
			t1, t2 := mk(), mk()
			var a1, a2 bool
			if obs.Try(func() { a1 = ref.As(inner, t1) }) != "" || !a1 { // (the reference algorithm: the library's own As is what is being judged)
				continue
			}
			if obs.Try(func() { a2 = errors.As(w, t2) }) != "" {
				continue
			}
			if !a2 {
				r.Failf("a wrapper loses an As match of the wrapped error", "kind %s, target %T\nspec %s", n.K, t1, c.Spec)
			}
		}
	}
	// "Newf/Errorf yield the fmt-formatted text": an error-typed argument
	// printed with a precision is cut by fmt (the error's Format method
	// honours the precision); the library's constructors print it in
	// full (known finding F23).
	for _, n := range c.Spec.Nodes() {
		if n.K != "wrapferrprec" {
			continue
		}
		arg, inner := b.Of[n.X[0]], b.Of[n.C]
		if _, lib := arg.(fmt.Formatter); !lib {
			continue // fmt cuts Error() itself for other types: nothing to compare
		}
		want := "lit " + n.S[0] + " e=" + fmt.Sprintf("%.12v", arg) + ": " + inner.Error()
		if got := b.Of[n].Error(); got != want {
			r.Failf(sigF23, "Wrapf(cause, \"lit %s e=%%.12v\", arg): got %q, fmt gives %q\nspec %s", n.S[0], got, want, c.Spec)
		}
	}
	// Join copies its arguments (as the standard library's does): reusing
	// the slice behind the variadic argument list after the call does
	// not change the error that was built from it. (Not demanded of
	// WithTelemetry, which keeps the caller's slice on the unchanged
	// tree; no listed property forbids that.)
	for _, n := range c.Spec.Nodes() {
		switch n.K {
		case "join", "subjoin":
			var xs []error
			for _, x := range n.X {
				xs = append(xs, b.Of[x])
			}
			args := gen.JoinArgs(n.I[0], xs)
			var j error
			if n.K == "join" {
				j = errors.Join(args...)
			} else {
				j = join.Join(args...)
			}
			if j == nil {
				continue
			}
			before := j.Error()
			for i := range args {
				args[i] = goErr.New("clobbered")
			}
			if after := j.Error(); after != before {
				r.Failf("an error changes when the caller reuses the slice its constructor was given: "+n.K, "%q -> %q\nspec %s", before, after, c.Spec)
			}
		}
	}
	msgLayers := 0
	for _, k := range roles {
		msgLayers += k
	}
	if msgLayers >= 3 && len(roles) >= 2 {
		r.NonTrivial()
	}
	r.St.CountN("message-bearing layers", msgLayers)
	r.St.CountN("visible layers", len(vis))
	for k := range c.Spec.Kinds() {
		r.Count("kinds", k)
	}
}

func roleName(r gen.Role) string {
	return [...]string{"transparent", "prefix", "full-message", "leaf"}[r]
}

var prop = &pbt.Prop{ID: "C10", Part: "compose", Draw: draw, Check: check,
	Valid: func(c *pbt.Case) bool { return gen.SpecRegularOrEmpty(c.Spec) }}

func TestProp(t *testing.T) { pbt.Run(t, prop) }
