// Package oddpkg lives in a directory whose name (odd.v2) is not its
// package name, as major-version and gopkg.in packages do.
package oddpkg

// Err is a leaf error type.
type Err struct{ Msg string }

func (e *Err) Error() string { return e.Msg }
