//go:build verif

// C17 — type renames do not break cross-version identity.
package c17

import (
	"bytes"
	"context"
	"fmt"
	"os"
	"reflect"
	"strings"
	"testing"

	"github.com/cockroachdb/errors"
	"github.com/cockroachdb/errors/errbase"
	"github.com/cockroachdb/errors/errorspb"
	"github.com/gogo/protobuf/proto"
	"pgregory.net/rapid"

	"verif/obs"
	"verif/pbt"
	"verif/wire"
)

func TestMain(m *testing.M) { pbt.Main(m) }

// The logical leaf type T and wrapper type W under their successive names.
type fooErr struct{ msg string }
type barErr struct{ msg string }
type quxErr struct{ msg string }
type bazErr struct{ msg string }
type zedErr struct{ msg string }

func (e *fooErr) Error() string { return e.msg }
func (e *barErr) Error() string { return e.msg }
func (e *quxErr) Error() string { return e.msg }
func (e *bazErr) Error() string { return e.msg }
func (e *zedErr) Error() string { return e.msg }

type fooW struct{ cause error }
type barW struct{ cause error }
type quxW struct{ cause error }
type bazW struct{ cause error }
type zedW struct{ cause error }

// The wrapper type also extends its identity with a type key marker
// (errbase.TypeKeyMarker), like the library's domain wrapper: renamed
// *and* key-marked.
func (w *fooW) ErrorKeyMarker() string { return "marker" }
func (w *barW) ErrorKeyMarker() string { return "marker" }
func (w *quxW) ErrorKeyMarker() string { return "marker" }
func (w *bazW) ErrorKeyMarker() string { return "marker" }
func (w *zedW) ErrorKeyMarker() string { return "marker" }

func (w *fooW) Error() string { return w.cause.Error() }
func (w *fooW) Unwrap() error { return w.cause }
func (w *barW) Error() string { return w.cause.Error() }
func (w *barW) Unwrap() error { return w.cause }
func (w *quxW) Error() string { return w.cause.Error() }
func (w *quxW) Unwrap() error { return w.cause }
func (w *bazW) Error() string { return w.cause.Error() }
func (w *bazW) Unwrap() error { return w.cause }
func (w *zedW) Error() string { return w.cause.Error() }
func (w *zedW) Unwrap() error { return w.cause }

var pkg = reflect.TypeOf(fooErr{}).PkgPath()

type names struct {
	leaf, wrap string // type names as reflect prints them
	newLeaf    func(string) error
	newWrap    func(error) error
}

var byName = map[string]names{
	"foo": {"*c17.fooErr", "*c17.fooW", func(m string) error { return &fooErr{m} }, func(c error) error { return &fooW{c} }},
	"bar": {"*c17.barErr", "*c17.barW", func(m string) error { return &barErr{m} }, func(c error) error { return &barW{c} }},
	"qux": {"*c17.quxErr", "*c17.quxW", func(m string) error { return &quxErr{m} }, func(c error) error { return &quxW{c} }},
	"baz": {"*c17.bazErr", "*c17.bazW", func(m string) error { return &bazErr{m} }, func(c error) error { return &bazW{c} }},
	"zed": {"*c17.zedErr", "*c17.zedW", func(m string) error { return &zedErr{m} }, func(c error) error { return &zedW{c} }},
}

// version is one code version: the current name of T/W and the
// renames it declares, in registration order.
type version struct {
	name    string
	current string      // "" = the version never knew the type
	renames [][2]string // {from, to}
	image   errbase.VerifRegistry
}

// The leaf type has a custom encoder whose payload the decoder needs
// (so that an encoder registered under the type key must be found for
// a renamed type too).
func ld(f func(string) error) errbase.LeafDecoder {
	return func(_ context.Context, msg string, _ []string, payload proto.Message) error {
		p, ok := payload.(*errorspb.StringPayload)
		if !ok || p.Msg != "payload of "+msg {
			return nil
		}
		return f(msg)
	}
}

func le() errbase.LeafEncoder {
	return func(_ context.Context, err error) (string, []string, proto.Message) {
		return err.Error(), nil, &errorspb.StringPayload{Msg: "payload of " + err.Error()}
	}
}
func wd(f func(error) error) errbase.WrapperDecoder {
	return func(_ context.Context, c error, _ string, _ []string, _ proto.Message) error { return f(c) }
}

func permutations(a [][2]string) [][][2]string {
	if len(a) <= 1 {
		return [][][2]string{a}
	}
	var out [][][2]string
	for i := range a {
		rest := append(append([][2]string{}, a[:i]...), a[i+1:]...)
		for _, p := range permutations(rest) {
			out = append(out, append([][2]string{a[i]}, p...))
		}
	}
	return out
}

var versions []*version
var base errbase.VerifRegistry

func label(rs [][2]string) string {
	var s []string
	for _, r := range rs {
		s = append(s, r[0]+">"+r[1])
	}
	return strings.Join(s, ",")
}

// buildVersions creates the registry image of every code version
// through the library's public registration API.
func buildVersions() {
	if versions != nil {
		return
	}
	base = errbase.VerifSnapshotRegistry()
	defer errbase.VerifInstallRegistry(base)
	add := func(name, current string, renames [][2]string) {
		for _, p := range permutations(renames) {
			v := &version{name: name, current: current, renames: p}
			if len(renames) > 1 {
				v.name = name + "[" + label(p) + "]"
			}
			errbase.VerifInstallRegistry(base)
			for _, r := range p {
				errbase.RegisterTypeMigration(pkg, byName[r[0]].leaf, byName[r[1]].newLeaf(""))
				errbase.RegisterTypeMigration(pkg, byName[r[0]].wrap, byName[r[1]].newWrap(nil))
			}
			if current != "" {
				n := byName[current]
				errbase.RegisterLeafEncoder(errbase.GetTypeKey(n.newLeaf("")), le())
				errbase.RegisterLeafDecoder(errbase.GetTypeKey(n.newLeaf("")), ld(n.newLeaf))
				errbase.RegisterWrapperDecoder(errbase.GetTypeKey(n.newWrap(nil)), wd(n.newWrap))
			}
			v.image = errbase.VerifSnapshotRegistry()
			versions = append(versions, v)
		}
	}
	add("v0", "", nil)
	add("v1", "foo", nil)
	add("v2", "bar", [][2]string{{"foo", "bar"}})
	add("vB", "qux", [][2]string{{"foo", "qux"}})
	add("v3", "baz", [][2]string{{"foo", "bar"}, {"bar", "baz"}})
	add("v4", "zed", [][2]string{{"foo", "bar"}, {"bar", "baz"}, {"baz", "zed"}})
}

func versionByName(n string) *version {
	for _, v := range versions {
		if v.name == n {
			return v
		}
	}
	panic("unknown version " + n)
}

// at runs f inside the process of version v.
func at(v *version, f func()) {
	errbase.VerifInstallRegistry(v.image)
	defer errbase.VerifInstallRegistry(base)
	f()
}

func (v *version) make(msg string) error {
	n := byName[v.current]
	return n.newWrap(n.newLeaf(msg))
}

var fooLeafKey, fooWrapKey string

func init() {
	fooLeafKey = pkg + "/*c17.fooErr"
	fooWrapKey = pkg + "/*c17.fooW"
}

// A history: "send:<v>" creates the error at v (first step), then
// "hop:<v>" passes it through v; the receiver's checks run at every
// process. Two errors A and B (possibly from different senders) are
// tracked to check scenario 5 at every process.
func check(c *pbt.Case, r *pbt.R) {
	buildVersions()
	hist := c.L["history"]
	var wireA, wireB []byte
	for i, step := range hist {
		parts := strings.SplitN(step, ":", 2)
		op, v := parts[0], versionByName(parts[1])
		switch op {
		case "sendA", "sendB":
			if v.current == "" {
				panic("v0 cannot create the error")
			}
			var b []byte
			at(v, func() {
				e := v.make("boom")
				enc := errors.EncodeError(wire.Ctx, e)
				wk := enc.GetWrapper().Details.ErrorTypeMark.FamilyName
				lk := enc.GetWrapper().Cause.GetLeaf().Details.ErrorTypeMark.FamilyName
				if wk != fooWrapKey || lk != fooLeafKey {
					r.Failf("a renamed type is not encoded under its original name: sender "+v.name, "wrapper key %s, leaf key %s; want %s and %s", wk, lk, fooWrapKey, fooLeafKey)
				}
				if k := string(errbase.GetTypeKey(byName[v.current].newLeaf(""))); false && k == "" {
					_ = k
				}
				b = wire.Marshal(&enc)
			})
			if op == "sendA" {
				wireA = b
			} else {
				wireB = b
			}
		case "hopA", "hopB", "hopAB":
			hop := func(in []byte, which string) []byte {
				if in == nil {
					return nil
				}
				var out []byte
				at(v, func() {
					got := wire.Decode(in)
					wantW, wantL := "*errbase.opaqueWrapper", "*errbase.opaqueLeaf"
					if v.current != "" {
						wantW, wantL = byName[v.current].wrap, byName[v.current].leaf
					}
					inner := errors.UnwrapOnce(got)
					if tw, tl := fmt.Sprintf("%T", got), fmt.Sprintf("%T", inner); tw != wantW || tl != wantL {
						r.Failf("an error arriving under the original name is not decoded to the receiver's type: receiver "+v.name,
							"step %d %s: got %s / %s want %s / %s\nhistory %v", i, step, tw, tl, wantW, wantL, hist)
					}
					if got.Error() != "boom" {
						r.Failf("text lost across versions: receiver "+v.name, "step %d: %q\nhistory %v", i, got.Error(), hist)
					}
					if v.current != "" {
						if ok, p := obs.SafeIs(got, v.make("boom")); p != nil || !ok {
							r.Failf("Is does not recognise the error across versions: receiver "+v.name, "step %d %s (%v)\nhistory %v", i, step, p, hist)
						}
						if ok, _ := obs.SafeIs(got, v.make("other")); ok {
							r.Failf("Is matches an error with another message across versions: receiver "+v.name, "step %d\nhistory %v", i, hist)
						}
					}
					out = wire.Encode(got)
					enc := wire.Unmarshal(out)
					if wk, lk := enc.GetWrapper().Details.ErrorTypeMark.FamilyName, enc.GetWrapper().Cause.GetLeaf().Details.ErrorTypeMark.FamilyName; wk != fooWrapKey || lk != fooLeafKey {
						r.Failf("a renamed type is not re-encoded under its original name: process "+v.name, "step %d: wrapper key %s, leaf key %s\nhistory %v", i, wk, lk, hist)
					}
				})
				return out
			}
			if op == "hopA" || op == "hopAB" {
				wireA = hop(wireA, "A")
			}
			if op == "hopB" || op == "hopAB" {
				wireB = hop(wireB, "B")
			}
			// Scenario 5: the two errors are equivalent at every process,
			// v0 included, in both directions.
			if wireA != nil && wireB != nil {
				at(v, func() {
					a, b := wire.Decode(wireA), wire.Decode(wireB)
					ab, p1 := obs.SafeIs(a, b)
					ba, p2 := obs.SafeIs(b, a)
					if p1 != nil || p2 != nil || !ab || !ba {
						r.Failf("two errors of the same logical type from different versions are not Is-equal: at "+v.name, "step %d: %v %v (%v %v)\nhistory %v", i, ab, ba, p1, p2, hist)
					}
				})
			}
		default:
			panic("unknown step " + step)
		}
	}
	if len(hist) >= 3 {
		r.NonTrivial()
	}
	r.St.CountN("history length", len(hist))
	for _, s := range hist {
		r.Count("steps", s[:strings.Index(s, ":")])
	}
}

var histProp = &pbt.Prop{ID: "C17", Part: "histories", Check: check,
	Draw: func(t *rapid.T) *pbt.Case {
		buildVersions()
		var senders, all []string
		for _, v := range versions {
			all = append(all, v.name)
			if v.current != "" {
				senders = append(senders, v.name)
			}
		}
		c := &pbt.Case{}
		var h []string
		h = append(h, "sendA:"+rapid.SampledFrom(senders).Draw(t, "senderA"))
		h = append(h, "sendB:"+rapid.SampledFrom(senders).Draw(t, "senderB"))
		n := rapid.IntRange(1, 6).Draw(t, "steps")
		for i := 0; i < n; i++ {
			op := rapid.SampledFrom([]string{"hopA", "hopB", "hopAB", "hopAB"}).Draw(t, "op")
			h = append(h, op+":"+rapid.SampledFrom(all).Draw(t, "process"))
		}
		c.SetList("history", h)
		return c
	},
	Valid: func(c *pbt.Case) bool {
		h := c.L["history"]
		return len(h) >= 2 && strings.HasPrefix(h[0], "sendA:") && strings.HasPrefix(h[1], "sendB:")
	},
}

func TestProp(t *testing.T) { pbt.Run(t, histProp) }

var exProp = &pbt.Prop{ID: "C17", Part: "exhaustive", Check: check}

// TestExhaustive: every assignment of code versions (registration
// orders included) to sender / other sender / intermediary / receiver.
func TestExhaustive(t *testing.T) {
	if os.Getenv("VERIF_REPLAY") != "" {
		pbt.Run(t, exProp)
		return
	}
	buildVersions()
	st := pbt.NewStats("exhaustive")
	defer st.Write()
	reported := map[string]bool{}
	run := func(h []string) {
		c := &pbt.Case{}
		c.SetList("history", h)
		f := exProp.RunCheck(c, st)
		st.NT(c.Hash(), func() interface{} { return c })
		if f != nil && !reported[f.Sig] {
			reported[f.Sig] = true
			pbt.Fail(t, exProp, st, c, f)
		}
	}
	for _, s := range versions {
		if s.current == "" {
			continue
		}
		for _, s2 := range versions {
			if s2.current == "" {
				continue
			}
			for _, r := range versions {
				// direct
				run([]string{"sendA:" + s.name, "sendB:" + s2.name, "hopAB:" + r.name})
			}
		}
		for _, i := range versions {
			for _, r := range versions {
				// via one intermediary (scenarios 3 and 4)
				run([]string{"sendA:" + s.name, "sendB:" + s.name, "hopA:" + i.name, "hopAB:" + r.name})
			}
		}
	}
	// Registration order must not matter: identical type keys and bytes.
	st.Eval()
	byVersion := map[string][][]byte{}
	for _, v := range versions {
		if v.current == "" {
			continue
		}
		at(v, func() {
			b := wire.Encode(v.make("boom"))
			short := v.name
			if i := strings.Index(short, "["); i >= 0 {
				short = short[:i]
			}
			byVersion[short] = append(byVersion[short], b)
		})
	}
	for name, bs := range byVersion {
		for _, b := range bs[1:] {
			if !bytes.Equal(b, bs[0]) {
				c := &pbt.Case{}
				c.SetList("history", []string{"sendA:" + name})
				pbt.Fail(t, exProp, st, c, &pbt.Failure{Sig: "the encoding depends on the registration order of chained renames: " + name, Msg: wire.Text(b) + "\n----\n" + wire.Text(bs[0])})
				break
			}
		}
	}
	// Registering the same target twice is rejected, whatever was
	// registered in between.
	dupSeqs := [][][2]string{
		{{"foo", "bar"}, {"other", "bar"}},
		{{"foo", "bar"}, {"foo", "bar"}},
		{{"foo", "bar"}, {"bar", "qux"}, {"bar", "qux"}},
		{{"foo", "bar"}, {"zed", "qux"}, {"bar", "qux"}},
		{{"bar", "qux"}, {"foo", "bar"}, {"foo", "qux"}},
		{{"foo", "bar"}, {"bar", "baz"}, {"baz", "zed"}, {"foo", "zed"}},
	}
	otherName := names{leaf: "*c17.otherErr", wrap: "*c17.otherW"}
	for _, seq := range dupSeqs {
		st.Eval()
		func() {
			errbase.VerifInstallRegistry(base)
			defer errbase.VerifInstallRegistry(base)
			get := func(n string) names {
				if n == "other" {
					return otherName
				}
				return byName[n]
			}
			for i, rn := range seq {
				p := obs.Try(func() { errbase.RegisterTypeMigration(pkg, get(rn[0]).leaf, byName[rn[1]].newLeaf("")) })
				last := i == len(seq)-1
				if last && p == "" {
					c := &pbt.Case{}
					c.SetList("history", []string{"register:" + label(seq)})
					pbt.Fail(t, exProp, st, c, &pbt.Failure{Sig: "registering the same migration target twice is not rejected: " + label(seq)})
				}
				if !last && p != "" {
					t.Fatalf("setup: registration %v of %v panicked: %s", rn, seq, p)
				}
			}
		}()
		st.NT(uint64(len(label(seq)))<<32|uint64(len(seq)), func() interface{} { return "duplicate target: " + label(seq) })
	}
	st.Notes = append(st.Notes, fmt.Sprintf("%d code versions (registration orders of chained renames included): %s", len(versions), func() string {
		var n []string
		for _, v := range versions {
			n = append(n, v.name)
		}
		return strings.Join(n, " ")
	}()))
	st.Exhaustive = true
}
