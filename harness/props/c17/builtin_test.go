//go:build verif

package c17

import (
	"fmt"
	"io/fs"
	"strings"
	"testing"

	"github.com/cockroachdb/errors"
	"github.com/cockroachdb/errors/errorspb"
	"pgregory.net/rapid"

	"verif/gen"
	"verif/obs"
	"verif/pbt"
	"verif/wire"
)

// The rename the library itself declares: the type os.PathError of
// Go < 1.16 is io/fs.PathError since (errbase/oserror_go116.go). A
// peer built with the older toolchain sends and expects the old name.
const (
	pathErrOldName = "os/*os.PathError"
	pathErrNewName = "io/fs/*fs.PathError"
)

func drawBuiltin(t *rapid.T) *pbt.Case {
	g := gen.Default(gen.Regular())
	c := &pbt.Case{}
	// Construct the feature: a path error somewhere in a generated tree.
	inner := g.Draw(t, rapid.IntRange(1, 4).Draw(t, "innerbudget"))
	s := g.WrapOf(t, "ospath", inner)
	for i, n := 0, rapid.IntRange(0, 3).Draw(t, "wrappers"); i < n; i++ {
		w := g.WrapOf(t, rapid.SampledFrom(g.Wraps).Draw(t, "w"), s)
		for j := range w.X {
			w.X[j] = g.DrawLeaf(t)
		}
		s = w
	}
	c.Spec = s
	return c
}

func checkBuiltin(c *pbt.Case, r *pbt.R) {
	e := gen.Build(c.Spec)
	enc := wire.Unmarshal(wire.Encode(e))
	// (1) encoded under the original name.
	n := 0
	wire.VisitDetails(&enc, func(d *errorspb.EncodedErrorDetails, _ bool) {
		if d.OriginalTypeName == pathErrNewName {
			n++
			if d.ErrorTypeMark.FamilyName != pathErrOldName {
				r.Failf("the library's own renamed type (os.PathError -> fs.PathError) is not encoded under its original name", "family %q\n%s", d.ErrorTypeMark.FamilyName, c.Spec)
			}
		}
	})
	if n == 0 {
		r.Failf("a path error is not sent as "+pathErrNewName, "%s", c.Spec)
	}
	// (2) what a peer running the old code sends: the old name
	// throughout. It is decoded to the receiver's type, with the same
	// shape and text, and recognized in both directions.
	old := wire.Unmarshal(wire.Encode(e))
	wire.VisitDetails(&old, func(d *errorspb.EncodedErrorDetails, _ bool) {
		if d.ErrorTypeMark.FamilyName == pathErrOldName || d.OriginalTypeName == pathErrNewName {
			d.OriginalTypeName = pathErrOldName
			d.ErrorTypeMark.FamilyName = pathErrOldName
		}
	})
	got := errors.DecodeError(wire.Ctx, old)
	if a, b := obs.Shape(got).Str(false), obs.Shape(wire.Decode(wire.Encode(e))).Str(false); a != b {
		r.Failf("a path error arriving under its original name is not decoded like one sent by this version", "from the old peer:\n%s\nfrom this version:\n%s\n%s", a, b, c.Spec)
	}
	var pe, pe0 *fs.PathError
	if errors.As(e, &pe0) && !errors.As(got, &pe) { // (visible: not behind a barrier)
		r.Failf("a path error arriving under its original name is not decoded to *fs.PathError", "%s\n%s", obs.Shape(got).Str(false), c.Spec)
	}
	for _, x := range obs.AllNodes(e) {
		if _, isPath := x.(*fs.PathError); !isPath {
			continue
		}
		// the same layer of the received error
		for _, y := range obs.AllNodes(got) {
			if y.Error() != x.Error() || len(obs.AllNodes(y)) != len(obs.AllNodes(x)) {
				continue
			}
			if _, isPath := y.(*fs.PathError); !isPath {
				continue
			}
			a, p1 := obs.SafeIs(y, x)
			b, p2 := obs.SafeIs(x, y)
			if p1 == nil && p2 == nil && (!a || !b) {
				r.Failf("Is does not recognize a path error across the old and the new name", "Is(received, local)=%v Is(local, received)=%v\n%s", a, b, c.Spec)
			}
		}
	}
	if c.Spec.Size() >= 3 {
		r.NonTrivial()
	}
	r.St.CountN("path errors in the tree", n)
	if strings.Contains(fmt.Sprint(c.Spec), "handled") {
		r.Count("features", "path error behind a barrier")
	}
}

var builtinProp = &pbt.Prop{ID: "C17", Part: "builtin-rename", Draw: drawBuiltin, Check: checkBuiltin,
	Valid: func(c *pbt.Case) bool { return gen.SpecRegular(c.Spec) && c.Spec.Has("ospath") }}

func TestBuiltinRename(t *testing.T) { pbt.Run(t, builtinProp) }
