//go:build verif

package c17

import (
	"context"
	"fmt"
	"io/fs"
	"reflect"
	"strings"
	"testing"

	"github.com/cockroachdb/errors"
	"github.com/cockroachdb/errors/errbase"
	"github.com/cockroachdb/errors/errorspb"
	"github.com/gogo/protobuf/proto"
	"pgregory.net/rapid"

	"verif/gen"
	"verif/obs"
	"verif/pbt"
	oddpkg "verif/props/c17/odd.v2"
	"verif/wire"
)

// The rename the library itself declares: the type os.PathError of
// Go < 1.16 is io/fs.PathError since (errbase/oserror_go116.go). A
// peer built with the older toolchain sends and expects the old name.
const (
	pathErrOldName = "os/*os.PathError"
	pathErrNewName = "io/fs/*fs.PathError"
)

func drawBuiltin(t *rapid.T) *pbt.Case {
	g := gen.Default(gen.Regular())
	c := &pbt.Case{}
	// Construct the feature: a path error somewhere in a generated tree.
	inner := g.Draw(t, rapid.IntRange(1, 4).Draw(t, "innerbudget"))
	s := g.WrapOf(t, "ospath", inner)
	for i, n := 0, rapid.IntRange(0, 3).Draw(t, "wrappers"); i < n; i++ {
		w := g.WrapOf(t, rapid.SampledFrom(g.Wraps).Draw(t, "w"), s)
		for j := range w.X {
			w.X[j] = g.DrawLeaf(t)
		}
		s = w
	}
	c.Spec = s
	return c
}

func checkBuiltin(c *pbt.Case, r *pbt.R) {
	e := gen.Build(c.Spec)
	enc := wire.Unmarshal(wire.Encode(e))
	// (1) encoded under the original name.
	n := 0
	wire.VisitDetails(&enc, func(d *errorspb.EncodedErrorDetails, _ bool) {
		if d.OriginalTypeName == pathErrNewName {
			n++
			if d.ErrorTypeMark.FamilyName != pathErrOldName {
				r.Failf("the library's own renamed type (os.PathError -> fs.PathError) is not encoded under its original name", "family %q\n%s", d.ErrorTypeMark.FamilyName, c.Spec)
			}
		}
	})
	if n == 0 {
		r.Failf("a path error is not sent as "+pathErrNewName, "%s", c.Spec)
	}
	// (2) what a peer running the old code sends: the old name
	// throughout. It is decoded to the receiver's type, with the same
	// shape and text, and recognized in both directions.
	old := wire.Unmarshal(wire.Encode(e))
	wire.VisitDetails(&old, func(d *errorspb.EncodedErrorDetails, _ bool) {
		if d.ErrorTypeMark.FamilyName == pathErrOldName || d.OriginalTypeName == pathErrNewName {
			d.OriginalTypeName = pathErrOldName
			d.ErrorTypeMark.FamilyName = pathErrOldName
		}
	})
	got := errors.DecodeError(wire.Ctx, old)
	if a, b := obs.Shape(got).Str(false), obs.Shape(wire.Decode(wire.Encode(e))).Str(false); a != b {
		r.Failf("a path error arriving under its original name is not decoded like one sent by this version", "from the old peer:\n%s\nfrom this version:\n%s\n%s", a, b, c.Spec)
	}
	var pe, pe0 *fs.PathError
	if errors.As(e, &pe0) && !errors.As(got, &pe) { // (visible: not behind a barrier)
		r.Failf("a path error arriving under its original name is not decoded to *fs.PathError", "%s\n%s", obs.Shape(got).Str(false), c.Spec)
	}
	for _, x := range obs.AllNodes(e) {
		if _, isPath := x.(*fs.PathError); !isPath {
			continue
		}
		// the same layer of the received error
		for _, y := range obs.AllNodes(got) {
			if y.Error() != x.Error() || len(obs.AllNodes(y)) != len(obs.AllNodes(x)) {
				continue
			}
			if _, isPath := y.(*fs.PathError); !isPath {
				continue
			}
			a, p1 := obs.SafeIs(y, x)
			b, p2 := obs.SafeIs(x, y)
			if p1 == nil && p2 == nil && (!a || !b) {
				r.Failf("Is does not recognize a path error across the old and the new name", "Is(received, local)=%v Is(local, received)=%v\n%s", a, b, c.Spec)
			}
		}
	}
	if c.Spec.Size() >= 3 {
		r.NonTrivial()
	}
	r.St.CountN("path errors in the tree", n)
	if strings.Contains(fmt.Sprint(c.Spec), "handled") {
		r.Count("features", "path error behind a barrier")
	}
}

var builtinProp = &pbt.Prop{ID: "C17", Part: "builtin-rename", Draw: drawBuiltin, Check: checkBuiltin,
	Valid: func(c *pbt.Case) bool { return gen.SpecRegular(c.Spec) && c.Spec.Has("ospath") }}

func TestBuiltinRename(t *testing.T) { pbt.Run(t, builtinProp) }

// movedErr: a type that kept its name while its package moved (only
// the import path in the migration declaration differs).
type movedErr struct{ msg string }

func (e *movedErr) Error() string { return e.msg }

// TestKeysAndMoves: (a) the natural key of a type - the name old code
// sends and the form RegisterTypeMigration asks the previous name in -
// is "<import path>/<Go type string>", also when the package name is
// not the last element of the import path; (b) a pure package move
// (same type name, other import path) is a rename like any other.
func TestKeysAndMoves(t *testing.T) {
	st := pbt.NewStats("keys-and-moves")
	defer st.Write()
	p := &pbt.Prop{ID: "C17", Part: "keys-and-moves"}
	fail := func(n int, sig, msg string) {
		c := &pbt.Case{}
		c.SetInt("step", n)
		pbt.Fail(t, p, st, c, &pbt.Failure{Sig: sig, Msg: msg})
	}
	// (a)
	st.Eval()
	st.NT(1, func() interface{} { return "natural key of a type in a package whose name differs from its directory" })
	odd := &oddpkg.Err{Msg: "x"}
	wantKey := reflect.TypeOf(odd).Elem().PkgPath() + "/" + reflect.TypeOf(odd).String()
	if got := string(errbase.GetTypeKey(odd)); got != wantKey {
		fail(1, "the natural key of a type is not <import path>/<Go type string>", fmt.Sprintf("got %q want %q", got, wantKey))
	}
	enc := wire.Unmarshal(wire.Encode(odd))
	if l := enc.GetLeaf(); l == nil || l.Details.ErrorTypeMark.FamilyName != wantKey || l.Details.OriginalTypeName != wantKey {
		fail(1, "the natural key of a type is not <import path>/<Go type string>", fmt.Sprintf("on the wire: %v want %q", enc, wantKey))
	}
	// (b) in a registry image of its own.
	st.Eval()
	st.NT(2, func() interface{} { return "a type whose package moved: same type name, other import path" })
	baseReg := errbase.VerifSnapshotRegistry()
	defer errbase.VerifInstallRegistry(baseReg)
	const oldPath = "example.com/old/place/c17"
	typeString := reflect.TypeOf(&movedErr{}).String() // "*c17.movedErr"
	errbase.RegisterTypeMigration(oldPath, typeString, &movedErr{})
	key := errbase.GetTypeKey(&movedErr{})
	errbase.RegisterLeafDecoder(key, func(_ context.Context, msg string, _ []string, _ proto.Message) error { return &movedErr{msg} })
	oldKey := oldPath + "/" + typeString
	if string(key) != oldKey {
		fail(2, "a renamed type is not encoded under its original name: package move", fmt.Sprintf("key %q want %q", key, oldKey))
	}
	encM := wire.Unmarshal(wire.Encode(&movedErr{"m"}))
	if l := encM.GetLeaf(); l == nil || l.Details.ErrorTypeMark.FamilyName != oldKey {
		fail(2, "a renamed type is not encoded under its original name: package move", fmt.Sprintf("family on the wire: %v want %q", encM, oldKey))
	}
	// what the old code sends: old name throughout
	if l := encM.GetLeaf(); l != nil {
		l.Details.OriginalTypeName = oldKey
		l.Details.ErrorTypeMark.FamilyName = oldKey
	}
	got := errors.DecodeError(wire.Ctx, encM)
	if _, ok := got.(*movedErr); !ok {
		fail(2, "an error arriving under the original name is not decoded to the receiver's type: package move", fmt.Sprintf("%T", got))
	}
	if !errors.Is(got, &movedErr{"m"}) || !errors.Is(&movedErr{"m"}, got) {
		fail(2, "Is does not recognize a moved type across the old and the new path", "")
	}
	dup := obs.Try(func() { errbase.RegisterTypeMigration("example.com/another/place/c17", typeString, &movedErr{}) })
	if dup == "" {
		fail(2, "registering a second migration for the same target is not rejected: package move", "")
	}
	st.Exhaustive = true
}
