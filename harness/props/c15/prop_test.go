//go:build verif

// C15 — the Sentry report is faithful to the error's structure.
package c15

import (
	"fmt"
	"reflect"
	"strings"
	"testing"

	"github.com/cockroachdb/errors"
	"github.com/cockroachdb/errors/errbase"
	"github.com/cockroachdb/redact"
	"pgregory.net/rapid"

	"verif/gen"
	"verif/obs"
	"verif/pbt"
	"verif/wire"
)

func TestMain(m *testing.M) { pbt.Main(m) }

func draw(t *rapid.T) *pbt.Case {
	maxB := 10
	if pbt.Thorough() {
		maxB = 20
	}
	c := &pbt.Case{}
	sg := gen.Regular()
	alpha := rapid.SampledFrom([]string{"regular", "regular", "hostile"}).Draw(t, "alphabet")
	if alpha == "hostile" {
		sg = gen.Hostile()
	}
	c.SetStr("alphabet", alpha)
	g := gen.Default(sg)
	switch rapid.IntRange(0, 3).Draw(t, "stacks") {
	case 0:
		// trees without any stack
		g = g.Without(stackKinds...).Without("sentinel", "unimpl")
	case 1:
		g = g.Boost(3, "stack", "wrap", "new", "pkgstack", "domain", "domnew")
	}
	g.WMulti = 2
	c.Spec = g.Draw(t, rapid.IntRange(1, maxB).Draw(t, "budget"))
	gen.SprinkleRepeats(t, c.Spec)
	c.SetInt("decoded", rapid.IntRange(0, 1).Draw(t, "decoded"))
	return c
}

var stackKinds = gen.StackCapturingKinds()

func lastPathComponent(s string) string {
	if i := strings.LastIndexByte(s, '/'); i >= 0 {
		return s[i+1:]
	}
	return s
}

func check(c *pbt.Case, r *pbt.R) {
	e0 := gen.Build(c.Spec)
	e := e0
	if c.Int("decoded") == 1 {
		e, _ = wire.Hop(e0)
	}
	ev, extras := errors.BuildSentryReport(e)
	if ev == nil {
		r.Failf("BuildSentryReport returns no event for a non-nil error", "%s", c.Spec)
		return
	}
	nodes := obs.AllNodes(e) // my own pre-order walk
	verbose := redact.Sprintf("%+v", e).Redact().StripMarkers()
	prefix := ""
	if f, l, _, ok := errors.GetOneLineSource(e); ok {
		prefix = fmt.Sprintf("%s:%d: ", f, l)
	}
	// The source location comes from the case description where it can:
	// the first frame recorded by the innermost frame-carrying layer of
	// the locally built error (source locations survive transfer, C11).
	if mf, ml, has, known := gen.ModelSource(c.Spec, e0); known {
		want := ""
		if has {
			want = fmt.Sprintf("%s:%d: ", mf, ml)
		}
		if prefix != want {
			r.Failf("the message is not preceded by the innermost recorded source file:line", "got prefix %q want %q\nspec %s", prefix, want, c.Spec)
		}
	}
	head := prefix + verbose + "\n-- report composition:\n"
	if !strings.HasPrefix(ev.Message, head) {
		r.Failf("the message does not begin with [file:line: ] + the redacted verbose rendering", "spec %s\nmessage %.400q\nwant    %.400q", c.Spec, ev.Message, head)
		return
	}
	comp := strings.TrimSuffix(ev.Message[len(head):], "\n(check the extra data payloads)")
	lines := strings.Split(comp, "\n")
	if len(lines) != len(nodes) {
		r.Failf("the report composition does not have one line per layer", "lines %d layers %d\nspec %s\n%s", len(lines), len(nodes), c.Spec, comp)
		return
	}
	for k, line := range lines {
		n := nodes[len(nodes)-1-k]
		short := lastPathComponent(errors.GetSafeDetails(n).OriginalTypeName)
		if !strings.Contains(line, short) {
			r.Failf("a composition line does not name its layer's type", "line %d %q, layer type %s\nspec %s", k, line, short, c.Spec)
		}
	}
	var withStack []error
	for _, n := range nodes {
		if errors.GetReportableStackTrace(n) != nil {
			withStack = append(withStack, n)
		}
	}
	// Which layers carry a stack is known from the case description
	// (stacks survive transfer, C11), not only from the library.
	if vis, err := gen.Visible(c.Spec, gen.Build(c.Spec)); err == nil {
		want := 0
		for _, v := range vis {
			if v.Layer().Stack {
				want++
			}
		}
		if want != len(withStack) {
			r.Failf("a layer that captured a stack has no reportable stack trace (or vice versa)", "model %d layers with a stack, library %d\nspec %s", want, len(withStack), c.Spec)
		}
	}
	// The error's domain, from the case description (the outermost
	// domain annotation of the single-cause chain; domains survive
	// transfer, C11), not from the library's own GetDomain.
	dom := gen.ModelDomain(gen.Chain(c.Spec))
	if got := string(errors.GetDomain(e)); got != dom {
		r.Failf("GetDomain is not the outermost domain annotation of the chain", "got %q want %q\nspec %s", got, dom, c.Spec)
	}
	if len(withStack) == 0 {
		if len(ev.Exception) != 1 || ev.Exception[0].Stacktrace != nil {
			r.Failf("a report for an error without stack does not have exactly one synthetic exception", "%d exceptions\nspec %s", len(ev.Exception), c.Spec)
		}
	} else {
		if len(ev.Exception) != len(withStack) {
			r.Failf("the number of exceptions differs from the number of layers with a stack", "exceptions %d, layers with stack %d\nspec %s", len(ev.Exception), len(withStack), c.Spec)
			return
		}
		// (frame count against the program counters recorded locally)
		local := obs.AllNodes(e0)
		if len(local) == len(nodes) {
			k := 0
			for j, n := range nodes {
				if errors.GetReportableStackTrace(n) == nil {
					continue
				}
				if sp, ok := local[j].(errbase.StackTraceProvider); ok && ev.Exception[k].Stacktrace != nil && len(ev.Exception[k].Stacktrace.Frames) != len(sp.StackTrace()) {
					r.Failf("an exception does not carry the frames of its layer's stack (outermost first)", "exception %d has %d frames, the layer recorded %d program counters\nspec %s", k, len(ev.Exception[k].Stacktrace.Frames), len(sp.StackTrace()), c.Spec)
				}
				k++
			}
		}
		for i, n := range withStack {
			st := errors.GetReportableStackTrace(n)
			if ev.Exception[i].Stacktrace == nil || !reflect.DeepEqual(ev.Exception[i].Stacktrace.Frames, st.Frames) {
				r.Failf("an exception does not carry the frames of its layer's stack (outermost first)", "exception %d\nspec %s", i, c.Spec)
			}
		}
	}
	for i, exc := range ev.Exception {
		if exc.Module != dom {
			r.Failf("an exception's module is not the error's domain", "exception %d module %q domain %q\nspec %s", i, exc.Module, dom, c.Spec)
		}
	}
	ts, _ := extras["error types"].(string)
	types := strings.Split(strings.TrimSuffix(ts, "\n"), "\n")
	if len(types) != len(nodes) {
		r.Failf("the 'error types' extra does not have one line per layer", "lines %d layers %d\nspec %s\n%s", len(types), len(nodes), c.Spec, ts)
		return
	}
	for i, n := range nodes {
		sd := errors.GetSafeDetails(n)
		line := types[len(types)-1-i]
		fm := "*"
		if sd.OriginalTypeName != sd.ErrorTypeMark.FamilyName {
			fm = sd.ErrorTypeMark.FamilyName
		}
		if want := fmt.Sprintf("%s (%s::%s)", sd.OriginalTypeName, fm, sd.ErrorTypeMark.Extension); line != want {
			r.Failf("an 'error types' line is not <type> (<family or *>::<extension>) of its layer", "line %q want %q\nspec %s", line, want, c.Spec)
		}
	}
	// The same two listings against the case description: Go type and
	// type-mark extension of every layer come from the model (checked
	// against the built objects in C10), not from GetSafeDetails.
	if vis, err := gen.Visible(c.Spec, gen.Build(c.Spec)); err == nil && len(vis) == len(nodes) {
		for i := range nodes {
			l := vis[i].Layer()
			if line := lines[len(lines)-1-i]; !strings.Contains(line, l.Typ) {
				r.Failf("a composition line does not name its layer's type", "line %q, model type %s\nspec %s", line, l.Typ, c.Spec)
			}
			line := types[len(types)-1-i]
			if !strings.Contains(line, l.Typ+" (") || !strings.HasSuffix(line, "::"+l.Ext+")") {
				r.Failf("an 'error types' line is not <type> (<family or *>::<extension>) of its layer", "line %q, model type %s extension %q\nspec %s", line, l.Typ, l.Ext, c.Spec)
			}
		}
	}
	if len(nodes) >= 3 && (len(withStack) >= 2 || len(withStack) == 0 || c.Spec.Has(gen.MultiKinds...)) {
		r.NonTrivial()
	}
	r.St.CountN("layers", len(nodes))
	r.St.CountN("layers with stack", len(withStack))
	r.Count("decoded", fmt.Sprint(c.Int("decoded")))
	r.Count("alphabet", c.S["alphabet"])
	if c.Spec.Has(gen.MultiKinds...) {
		r.Count("features", "multi-cause")
	}
}

var prop = &pbt.Prop{ID: "C15", Part: "report", Draw: draw, Check: check}

func TestProp(t *testing.T) { pbt.Run(t, prop) }

func TestNilReport(t *testing.T) {
	st := pbt.NewStats("nil-report")
	defer st.Write()
	st.Eval()
	st.Eval()
	ev, ex := errors.BuildSentryReport(nil)
	st.NT(1, func() interface{} { return "BuildSentryReport(nil)" })
	st.NT(2, func() interface{} { return "ReportError(nil) is not called: it would send an event" })
	if ev != nil || ex != nil {
		pbt.Fail(t, &pbt.Prop{ID: "C15", Part: "nil-report"}, st, &pbt.Case{}, &pbt.Failure{Sig: "BuildSentryReport(nil) returns something"})
	}
	st.Exhaustive = true
}
