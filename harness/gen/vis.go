package gen

import (
	"fmt"
	"path/filepath"
	"runtime"
	"strings"

	"github.com/cockroachdb/errors/errbase"
)

// VNode is one visible layer of a built error: its position in the
// model chain and the real object.
type VNode struct {
	Ls  []Layer // the single-cause chain containing the layer
	I   int     // index of the layer in Ls
	Obj error
}

// Layer returns the model layer.
func (n VNode) Layer() Layer { return n.Ls[n.I] }

// Text is the expected Error() of the layer.
func (n VNode) Text() string { return TextAt(n.Ls, n.I) }

// Visible walks the real error and the model in lock step and
// returns all visible layers (multi-cause branches included, in
// pre-order). A structural disagreement is returned as an error.
func Visible(spec *Spec, e error) ([]VNode, error) {
	var out []VNode
	err := visible(spec, e, &out)
	return out, err
}

func visible(spec *Spec, e error, out *[]VNode) error {
	ls := Chain(spec)
	c := e
	for i := range ls {
		if c == nil {
			return fmt.Errorf("real chain has %d layers, model %d (model layer %d is %s) for %s", i, len(ls), i, ls[i].Typ, spec)
		}
		*out = append(*out, VNode{ls, i, c})
		if len(ls[i].Multi) > 0 {
			var bs []error
			for _, b := range errbase.UnwrapMulti(c) {
				if b != nil { // (a user type may list nil causes)
					bs = append(bs, b)
				}
			}
			if len(bs) != len(ls[i].Multi) {
				return fmt.Errorf("real node has %d branches, model %d for %s", len(bs), len(ls[i].Multi), spec)
			}
			for k, b := range bs {
				if err := visible(ls[i].Multi[k], b, out); err != nil {
					return err
				}
			}
		}
		c = errbase.UnwrapOnce(c)
	}
	if c != nil {
		return fmt.Errorf("real chain is longer than the model's %d layers (next real layer %T) for %s", len(ls), c, spec)
	}
	return nil
}

// Mark is the documented identity of an error for Is: its message
// and the full sequence of (type, extension) of its chain.
type Mark struct {
	Msg   string
	Types string
}

// MarkOf computes the mark of a visible layer from the model alone.
func MarkOf(n VNode) Mark {
	l := n.Ls[n.I]
	if l.Typ == "*markers.withMark" {
		// Explicit mark: that of the reference given to Mark().
		return MarkOf(VNode{Ls: Chain(l.Hidden[0]), I: 0})
	}
	var ts []string
	for j := n.I; j < len(n.Ls); j++ {
		ts = append(ts, n.Ls[j].Typ+"::"+n.Ls[j].Ext)
	}
	return Mark{TextAt(n.Ls, n.I), strings.Join(ts, "|")}
}

// Identical compares two error values with ==, tolerating
// non-comparable dynamic types.
func Identical(a, b error) (eq bool) {
	defer func() {
		if recover() != nil {
			eq = false
		}
	}()
	return a == b
}

// ModelIs is the independent reference of the documented Is
// relation: e (given by all its visible layers) matches r iff some
// layer is identical to r, or says so through its own Is method (only
// when methods is true), or has the same mark as r.
func ModelIs(vis []VNode, r VNode, methods bool) bool {
	rm := MarkOf(r)
	for _, l := range vis {
		if Identical(l.Obj, r.Obj) {
			return true
		}
		if methods {
			if x, ok := l.Obj.(interface{ Is(error) bool }); ok && x.Is(r.Obj) {
				return true
			}
		}
		if MarkOf(l) == rm {
			return true
		}
	}
	return false
}

// RefsOf builds spec and returns its visible layers (for use as
// references).
func RefsOf(spec *Spec) ([]VNode, error) {
	return Visible(spec, Build(spec))
}

// BarrierTexts lists the Error() texts of the visible barrier layers
// of the built error, in pre-order.
func BarrierTexts(spec *Spec, e error) []string {
	var texts []string
	if vis, err := Visible(spec, e); err == nil {
		for _, v := range vis {
			if v.Layer().Typ == "*barriers.barrierErr" {
				texts = append(texts, v.Text())
			}
		}
	}
	return texts
}

// ModelSource is the documented one-line source of an error: file
// (base name) and line of the first frame recorded by the innermost
// layer of the single-cause chain that recorded any frame - read from
// the program counters of the locally built error and resolved by the
// Go runtime. known is false when the model cannot tell (a stack layer
// that does not expose its program counters).
func ModelSource(spec *Spec, local error) (file string, line int, has, known bool) {
	ls := Chain(spec)
	var objs []error
	for x := local; x != nil; x = errbase.UnwrapOnce(x) {
		objs = append(objs, x)
	}
	if len(objs) != len(ls) {
		return "", 0, false, false
	}
	inner := -1
	for i, l := range ls {
		if l.Stack && l.Spec.K != "stackdeep" {
			inner = i
		}
	}
	if inner < 0 {
		return "", 0, false, true
	}
	sp, ok := objs[inner].(errbase.StackTraceProvider)
	if !ok || len(sp.StackTrace()) == 0 {
		return "", 0, false, false
	}
	pc := uintptr(sp.StackTrace()[0]) - 1
	f := runtime.FuncForPC(pc)
	if f == nil {
		return "", 0, false, false
	}
	rf, rl := f.FileLine(pc)
	return filepath.Base(rf), rl, true, true
}
