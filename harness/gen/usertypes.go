package gen

import (
	"context"
	"fmt"

	"github.com/cockroachdb/errors/errbase"
	"github.com/cockroachdb/errors/errorspb"
	"github.com/gogo/protobuf/proto"
)

// ---- unregistered user leaf types ----

// ULeafPtr: pointer leaf, no Format.
type ULeafPtr struct{ Msg string }

func (e *ULeafPtr) Error() string { return e.Msg }

// ULeafVal: comparable value-type leaf.
type ULeafVal struct{ Msg string }

func (e ULeafVal) Error() string { return e.Msg }

// ULeafNC: non-comparable value-type leaf (slice field).
type ULeafNC struct {
	Msg string
	Pad []int
}

func (e ULeafNC) Error() string { return e.Msg }

// ULeafFmtOld: leaf with an old-style Format method.
type ULeafFmtOld struct{ Msg string }

func (e *ULeafFmtOld) Error() string { return e.Msg }
func (e *ULeafFmtOld) Format(s fmt.State, verb rune) {
	switch verb {
	case 'v':
		if s.Flag('+') {
			fmt.Fprint(s, e.Msg)
			fmt.Fprintf(s, "\n-- verbose payload of %s", e.Msg)
			return
		}
		fallthrough
	default:
		fmt.Fprintf(s, "%"+flagsOf(s)+string(verb), e.Msg)
	}
}

func flagsOf(s fmt.State) string {
	f := ""
	for _, c := range "#+ -0" {
		if s.Flag(int(c)) {
			f += string(c)
		}
	}
	if w, ok := s.Width(); ok {
		f += fmt.Sprint(w)
	}
	if p, ok := s.Precision(); ok {
		f += "." + fmt.Sprint(p)
	}
	return f
}

// ULeafFormatter: leaf with Format -> FormatError and FormatError (unsafe).
type ULeafFormatter struct{ Msg, Det string }

func (e *ULeafFormatter) Error() string                 { return e.Msg }
func (e *ULeafFormatter) Format(s fmt.State, verb rune) { errbase.FormatError(e, s, verb) }
func (e *ULeafFormatter) FormatError(p errbase.Printer) error {
	p.Print(e.Msg)
	if p.Detail() {
		p.Printf("udetail: %s", e.Det)
	}
	return nil
}

// ULeafSafeFmt: leaf with SafeFormatError; Safe part and unsafe part.
type ULeafSafeFmt struct{ SafePart, Msg string }

func (e *ULeafSafeFmt) Error() string                 { return fmt.Sprint(errbase.Formattable(e)) }
func (e *ULeafSafeFmt) Format(s fmt.State, verb rune) { errbase.FormatError(e, s, verb) }
func (e *ULeafSafeFmt) SafeFormatError(p errbase.Printer) error {
	p.Printf("%s %s", safeStr(e.SafePart), e.Msg)
	return nil
}

// ---- unregistered user wrapper types ----

// UWrapNoFmt: prefix wrapper with Unwrap only.
type UWrapNoFmt struct {
	Msg   string
	Cause error
}

func (e *UWrapNoFmt) Error() string { return e.Msg + ": " + e.Cause.Error() }
func (e *UWrapNoFmt) Unwrap() error { return e.Cause }

// UWrapCauseOnly: prefix wrapper with Cause() only.
type UWrapCauseOnly struct {
	Msg   string
	Inner error
}

func (e *UWrapCauseOnly) Error() string { return e.Msg + ": " + e.Inner.Error() }
func (e *UWrapCauseOnly) Cause() error  { return e.Inner }

// UWrapTransparent: no message of its own, value type.
type UWrapTransparent struct{ Inner error }

func (e UWrapTransparent) Error() string { return e.Inner.Error() }
func (e UWrapTransparent) Unwrap() error { return e.Inner }

// UWrapSuffix: message after the cause (full-message ownership).
type UWrapSuffix struct {
	Msg   string
	Cause error
}

func (e *UWrapSuffix) Error() string { return e.Cause.Error() + " - " + e.Msg }
func (e *UWrapSuffix) Unwrap() error { return e.Cause }

// UWrapOverride: message replaces the cause's entirely.
type UWrapOverride struct {
	Msg   string
	Cause error
}

func (e *UWrapOverride) Error() string { return e.Msg }
func (e *UWrapOverride) Unwrap() error { return e.Cause }

// UWrapFormatter: wrapper with FormatError (unsafe).
type UWrapFormatter struct {
	Msg, Det string
	Cause    error
}

func (e *UWrapFormatter) Error() string                 { return e.Msg + ": " + e.Cause.Error() }
func (e *UWrapFormatter) Unwrap() error                 { return e.Cause }
func (e *UWrapFormatter) Format(s fmt.State, verb rune) { errbase.FormatError(e, s, verb) }
func (e *UWrapFormatter) FormatError(p errbase.Printer) error {
	p.Print(e.Msg)
	if p.Detail() {
		p.Printf("uwdetail: %s", e.Det)
	}
	return e.Cause
}

// UWrapSafeFmt: wrapper with SafeFormatError; Error() delegates to it.
type UWrapSafeFmt struct {
	SafePart, Msg string
	Inner         error
}

func (e *UWrapSafeFmt) Error() string                 { return fmt.Sprint(errbase.Formattable(e)) }
func (e *UWrapSafeFmt) Cause() error                  { return e.Inner }
func (e *UWrapSafeFmt) Format(s fmt.State, verb rune) { errbase.FormatError(e, s, verb) }
func (e *UWrapSafeFmt) SafeFormatError(p errbase.Printer) error {
	p.Printf("%s %s", safeStr(e.SafePart), e.Msg)
	return e.Inner
}

// UOpt: sometimes a leaf, sometimes a wrapper (message always its own).
type UOpt struct {
	Msg   string
	Cause error
}

func (e *UOpt) Error() string { return e.Msg }
func (e *UOpt) Unwrap() error { return e.Cause }

// UWrapFmtOld: wrapper with old-style Format.
type UWrapFmtOld struct {
	Msg   string
	Cause error
}

func (e *UWrapFmtOld) Error() string { return e.Msg + ": " + e.Cause.Error() }
func (e *UWrapFmtOld) Unwrap() error { return e.Cause }
func (e *UWrapFmtOld) Format(s fmt.State, verb rune) {
	switch verb {
	case 'v':
		if s.Flag('+') {
			fmt.Fprintf(s, "%+v", e.Cause)
			fmt.Fprintf(s, "\n-- old-style payload of %s", e.Msg)
			return
		}
		fallthrough
	default:
		fmt.Fprintf(s, "%"+flagsOf(s)+string(verb), e.Error())
	}
}

// UWrapKeyMarker: unregistered message-less wrapper whose type
// identity is extended by a per-value marker (errbase.TypeKeyMarker),
// like the library's own domain wrapper.
type UWrapKeyMarker struct {
	Marker string
	Cause  error
}

func (e *UWrapKeyMarker) Error() string          { return e.Cause.Error() }
func (e *UWrapKeyMarker) Unwrap() error          { return e.Cause }
func (e *UWrapKeyMarker) ErrorKeyMarker() string { return e.Marker }

// UWrapHinter: unregistered wrapper contributing a hint and a detail
// through the ErrorHinter / ErrorDetailer interfaces (not in the
// default kind lists: its annotations cannot survive transfer).
type UWrapHinter struct {
	Hint, Detail string
	Cause        error
}

func (e *UWrapHinter) Error() string       { return e.Cause.Error() }
func (e *UWrapHinter) Unwrap() error       { return e.Cause }
func (e *UWrapHinter) ErrorHint() string   { return e.Hint }
func (e *UWrapHinter) ErrorDetail() string { return e.Detail }

// UMulti: unregistered multi-cause type (message = own + all causes).
type UMulti struct {
	Msg    string
	Causes []error
}

func (e *UMulti) Error() string {
	s := e.Msg
	for _, c := range e.Causes {
		s += "; " + c.Error()
	}
	return s
}
func (e *UMulti) Unwrap() []error { return e.Causes }

// UMultiCause: unregistered multi-cause type that also has a Cause()
// method (returning its first cause), as some error-group types do.
type UMultiCause struct {
	Msg    string
	Causes []error
}

func (e *UMultiCause) Error() string {
	s := e.Msg
	for _, c := range e.Causes {
		s += "; " + c.Error()
	}
	return s
}
func (e *UMultiCause) Unwrap() []error { return e.Causes }

// UMultiCauser: like UMultiCause, and it really has the Cause()
// method (returning its first cause). The library then sees it both
// as a single-cause wrapper and as a multi-cause error; only the
// differential checks against the standard library use it.
type UMultiCauser struct {
	Msg    string
	Causes []error
}

func (e *UMultiCauser) Error() string {
	s := e.Msg
	for _, c := range e.Causes {
		s += "; " + c.Error()
	}
	return s
}
func (e *UMultiCauser) Unwrap() []error { return e.Causes }
func (e *UMultiCauser) Cause() error {
	if len(e.Causes) == 0 {
		return nil
	}
	return e.Causes[0]
}

// UMultiAs: unregistered multi-cause type with an As method: it can be
// seen as a *ULeafPtr (the standard library asks the node's own As
// method before it descends into the causes).
type UMultiAs struct {
	Msg    string
	Causes []error
	Alt    *ULeafPtr
}

func (e *UMultiAs) Error() string {
	s := e.Msg
	for _, c := range e.Causes {
		s += "; " + c.Error()
	}
	return s
}
func (e *UMultiAs) Unwrap() []error { return e.Causes }
func (e *UMultiAs) As(target interface{}) bool {
	if t, ok := target.(**ULeafPtr); ok {
		*t = e.Alt
		return true
	}
	return false
}

// UMultiIs: unregistered multi-cause type with an Is method that
// matches one sentinel of the pool by identity (the standard library
// asks the node's own Is method before it descends into the causes).
type UMultiIs struct {
	Msg    string
	Causes []error
	Target string
}

func (e *UMultiIs) Error() string {
	s := e.Msg
	for _, c := range e.Causes {
		s += "; " + c.Error()
	}
	return s
}
func (e *UMultiIs) Unwrap() []error      { return e.Causes }
func (e *UMultiIs) Is(target error) bool { return identicalErr(target, Sentinels[e.Target]) }

// ULeafAs: leaf with an As method: it can be seen as a *ULeafPtr
// carrying the same message.
type ULeafAs struct {
	Msg string
	Alt *ULeafPtr // what As stores (one object, so that results can be compared by identity)
}

func (e *ULeafAs) Error() string { return e.Msg }
func (e *ULeafAs) As(target interface{}) bool {
	// (answers by value: a ULeafAs without alternative declines)
	if t, ok := target.(**ULeafPtr); ok && e.Alt != nil {
		*t = e.Alt
		return true
	}
	return false
}

// UWrapAsSelf: wrapper that is assignable to *UWrapAsSelf and whose As
// method would store a different value for that same target (the
// standard library checks assignability first).
type UWrapAsSelf struct {
	Msg   string
	Cause error
	Alt   *UWrapAsSelf // what As stores
}

func (e *UWrapAsSelf) Error() string { return e.Msg + ": " + e.Cause.Error() }
func (e *UWrapAsSelf) Unwrap() error { return e.Cause }
func (e *UWrapAsSelf) As(target interface{}) bool {
	if t, ok := target.(**UWrapAsSelf); ok {
		*t = e.Alt
		return true
	}
	return false
}

// ---- registered user types (own encoder/decoder) ----

// RLeaf: registered leaf with decoder only (message round-trips).
type RLeaf struct{ Msg string }

func (e *RLeaf) Error() string { return e.Msg }

// RLeafIs: registered leaf with an Is method that matches one sentinel
// of the pool (by object identity); the decoder rebuilds the target
// from its name, so the match is expected to survive transfer.
type RLeafIs struct {
	Msg    string
	Target string
}

func (e *RLeafIs) Error() string        { return e.Msg }
func (e *RLeafIs) Is(target error) bool { return identicalErr(target, Sentinels[e.Target]) }

func identicalErr(a, b error) (eq bool) {
	defer func() {
		if recover() != nil {
			eq = false
		}
	}()
	return a == b
}

// RWrapFull: registered wrapper owning the full message.
type RWrapFull struct {
	Msg   string
	Cause error
}

func (e *RWrapFull) Error() string                 { return e.Msg }
func (e *RWrapFull) Unwrap() error                 { return e.Cause }
func (e *RWrapFull) Format(s fmt.State, verb rune) { errbase.FormatError(e, s, verb) }
func (e *RWrapFull) FormatError(p errbase.Printer) error {
	p.Print(e.Msg)
	return nil
}

// RMulti: registered multi-cause type.
type RMulti struct {
	Msg    string
	Causes []error
}

func (e *RMulti) Error() string                 { return fmt.Sprint(errbase.Formattable(e)) }
func (e *RMulti) Unwrap() []error               { return e.Causes }
func (e *RMulti) Format(s fmt.State, verb rune) { errbase.FormatError(e, s, verb) }
func (e *RMulti) SafeFormatError(p errbase.Printer) error {
	p.Printf("%s", e.Msg)
	return nil
}

func init() {
	errbase.RegisterLeafDecoder(errbase.GetTypeKey(&RLeaf{}),
		func(_ context.Context, msg string, _ []string, _ proto.Message) error { return &RLeaf{msg} })
	errbase.RegisterLeafEncoder(errbase.GetTypeKey(&RLeafIs{}),
		func(_ context.Context, err error) (string, []string, proto.Message) {
			e := err.(*RLeafIs)
			return e.Msg, nil, &errorspb.StringPayload{Msg: e.Target}
		})
	errbase.RegisterLeafDecoder(errbase.GetTypeKey(&RLeafIs{}),
		func(_ context.Context, msg string, _ []string, payload proto.Message) error {
			p, ok := payload.(*errorspb.StringPayload)
			if !ok {
				return nil
			}
			return &RLeafIs{msg, p.Msg}
		})
	errbase.RegisterWrapperEncoderWithMessageType(errbase.GetTypeKey(&RWrapFull{}),
		func(_ context.Context, err error) (string, []string, proto.Message, errbase.MessageType) {
			return err.(*RWrapFull).Msg, nil, nil, errbase.FullMessage
		})
	errbase.RegisterWrapperDecoder(errbase.GetTypeKey(&RWrapFull{}),
		func(_ context.Context, cause error, msg string, _ []string, _ proto.Message) error {
			return &RWrapFull{msg, cause}
		})
	errbase.RegisterMultiCauseEncoder(errbase.GetTypeKey(&RMulti{}),
		func(_ context.Context, err error) (string, []string, proto.Message) {
			// A payload, so that a process that does not know the type
			// has something to carry through.
			return err.(*RMulti).Msg, nil, &errorspb.StringPayload{Msg: err.(*RMulti).Msg}
		})
	errbase.RegisterMultiCauseDecoder(errbase.GetTypeKey(&RMulti{}),
		func(_ context.Context, causes []error, msg string, _ []string, payload proto.Message) error {
			if p, ok := payload.(*errorspb.StringPayload); !ok || p.Msg != msg {
				return nil
			}
			return &RMulti{msg, causes}
		})
}

// UWrapBothFmt: wrapper that implements FormatError and
// SafeFormatError at once (the library documents that SafeFormatError
// takes precedence); Error() delegates to the formatter.
type UWrapBothFmt struct {
	SafePart, Msg string
	Inner         error
}

func (e *UWrapBothFmt) Error() string                 { return fmt.Sprint(errbase.Formattable(e)) }
func (e *UWrapBothFmt) Unwrap() error                 { return e.Inner }
func (e *UWrapBothFmt) Format(s fmt.State, verb rune) { errbase.FormatError(e, s, verb) }
func (e *UWrapBothFmt) FormatError(p errbase.Printer) error {
	p.Printf("%s %s", e.SafePart, e.Msg)
	return e.Inner
}
func (e *UWrapBothFmt) SafeFormatError(p errbase.Printer) error {
	p.Printf("%s %s", safeStr(e.SafePart), e.Msg)
	return e.Inner
}

// UWrapStackDetails: wrapper that records a pkg/errors-style stack
// trace AND reports safe details of its own.
type UWrapStackDetails struct {
	Msg, Safe string
	Inner     error
	St        errbase.StackTrace
}

func (e *UWrapStackDetails) Error() string                  { return e.Msg + ": " + e.Inner.Error() }
func (e *UWrapStackDetails) Unwrap() error                  { return e.Inner }
func (e *UWrapStackDetails) StackTrace() errbase.StackTrace { return e.St }
func (e *UWrapStackDetails) SafeDetails() []string          { return []string{e.Safe} }

// ZeroA, ZeroB: two different error types without fields. Pointers to
// zero-size values may share one address; they are still different
// errors.
type ZeroA struct{}
type ZeroB struct{}

func (*ZeroA) Error() string { return "zero-a" }
func (*ZeroB) Error() string { return "zero-b" }

// Coded is a named struct type; CodedAnon builds a value of the
// unnamed struct type with the same underlying type (assignable to
// Coded, so the standard library's As finds it with a *Coded target).
type Coded struct {
	error
	Code int
}

func CodedAnon(inner error, code int) error {
	return struct {
		error
		Code int
	}{inner, code}
}

// UMultiHoles: unregistered multi-cause type whose list of causes has
// nil entries (a per-shard result slice).
type UMultiHoles struct {
	Msg    string
	Causes []error // with nil holes
}

func (e *UMultiHoles) Error() string {
	s := e.Msg
	for _, c := range e.Causes {
		if c != nil {
			s += "; " + c.Error()
		}
	}
	return s
}
func (e *UMultiHoles) Unwrap() []error { return e.Causes }
