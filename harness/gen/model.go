package gen

import (
	"fmt"
	"path/filepath"
	"runtime"
	"strings"

	"github.com/cockroachdb/errors/assert"
	"github.com/cockroachdb/errors/issuelink"
	"github.com/cockroachdb/errors/stdstrings"
	"google.golang.org/grpc/codes"
)

type Role int

const (
	Transparent Role = iota
	Prefix
	Full // own text replaces the cause's text
	Leaf
)

// Layer is the model of one visible library/foreign layer.
type Layer struct {
	Spec   *Spec
	Typ    string // as printed by %T
	Role   Role
	Own    string // prefix / full text / leaf text
	Ext    string // type mark extension
	Hint   string
	Detail string
	Link   *[2]string // url, detail
	Keys   []string
	Domain string
	HasDom bool
	Tags   [][2]string
	Assert bool
	Unimpl bool
	HTTP   int
	GRPC   int
	Stack  bool
	Hidden []*Spec
	Multi  []*Spec
	IsOf   string // sentinel name matched by an Is method
}

func fmtText(s *Spec) string { return "lit " + s.S[0] + " u=" + s.S[1] + " s=" + s.S[2] }

// The model functions call each other recursively (the text of a node
// needs the text of its cause): within one outermost call the text of
// every node is computed once. (Without this the cost doubles with
// every layer, which only shows beyond the usual depth of 8.) Not for
// concurrent use.
var (
	textMemo   map[*Spec]string
	modelDepth int
)

func enterModel() func() {
	if modelDepth == 0 {
		textMemo = map[*Spec]string{}
	}
	modelDepth++
	return func() { modelDepth-- }
}

// Text is the expected Error() of the whole spec.
func Text(s *Spec) string {
	defer enterModel()()
	if v, ok := textMemo[s]; ok {
		return v
	}
	v := TextAt(Chain(s), 0)
	textMemo[s] = v
	return v
}

// TextAt computes the expected Error() text of layer i of a chain.
func TextAt(ls []Layer, i int) string {
	t := ""
	for j := len(ls) - 1; j >= i; j-- {
		l := ls[j]
		switch l.Role {
		case Leaf, Full:
			t = l.Own
		case Prefix:
			if l.Own != "" {
				t = l.Own + ": " + t
			}
		}
	}
	return t
}

// Chain returns all layers from s down its single-cause chain.
func Chain(s *Spec) []Layer {
	defer enterModel()()
	var out []Layer
	for c := s; c != nil; {
		ls := layersOf(c)
		out = append(out, ls...)
		if isBarrierKind(c.K) {
			break // the cause is hidden, chain ends
		}
		if c.K == "umulticauser" && len(c.X) > 0 {
			// a multi-error type that also has a Cause() method: the
			// library follows Cause() (the first branch) as single cause
			// and explores all branches as well.
			c = c.X[0]
			continue
		}
		c = c.C
	}
	return out
}

func isBarrierKind(k string) bool { return IsBarrierKind(k) }

// PkgDomain is the package domain of this package (what
// domains.New / domains.Handled called from here denote).
var PkgDomain = func() string {
	_, f, _, _ := runtime.Caller(0)
	return "error domain: pkg " + filepath.Dir(f)
}()

func mk(s *Spec, typ string, role Role, own string) Layer {
	return Layer{Spec: s, Typ: typ, Role: role, Own: own, HTTP: -1, GRPC: -1}
}

func stackL(s *Spec) Layer {
	l := mk(s, "*withstack.withStack", Transparent, "")
	l.Stack = true
	return l
}

func layersOf(s *Spec) []Layer {
	S := func(i int) string { return s.S[i] }
	causeText := func() string { return Text(s.C) }
	switch s.K {
	case "new":
		return []Layer{stackL(s), mk(s, "*errutil.leafError", Leaf, S(0))}
	case "newf":
		return []Layer{stackL(s), mk(s, "*errutil.leafError", Leaf, fmtText(s))}
	case "newf0":
		return []Layer{stackL(s), mk(s, "*errutil.leafError", Leaf, "lit "+S(0))}
	case "assertf0":
		a := mk(s, "*assert.withAssertionFailure", Transparent, "")
		a.Assert = true
		a.Hint = assert.AssertionErrorHint + stdstrings.IssueReferral
		return []Layer{a, stackL(s), mk(s, "*errutil.leafError", Leaf, "lit "+S(0))}
	case "assertf":
		a := mk(s, "*assert.withAssertionFailure", Transparent, "")
		a.Assert = true
		a.Hint = assert.AssertionErrorHint + stdstrings.IssueReferral
		return []Layer{a, stackL(s), mk(s, "*errutil.leafError", Leaf, fmtText(s))}
	case "unimpl":
		l := mk(s, "*issuelink.unimplementedError", Leaf, S(0))
		l.Unimpl = true
		l.Link = &[2]string{S(1), S(2)}
		h := issuelink.UnimplementedErrorHint
		if S(1) != "" {
			h += "\nSee: " + S(1)
		} else {
			h += stdstrings.IssueReferral
		}
		l.Hint = h
		return []Layer{l}
	case "unimplf":
		l := mk(s, "*issuelink.unimplementedError", Leaf, fmtText(s))
		l.Unimpl = true
		l.Link = &[2]string{S(3), S(4)}
		h := issuelink.UnimplementedErrorHint
		if S(3) != "" {
			h += "\nSee: " + S(3)
		} else {
			h += stdstrings.IssueReferral
		}
		l.Hint = h
		return []Layer{l}
	case "stleaf":
		g := mk(s, "*extgrpc.withGrpcCode", Transparent, "")
		g.GRPC = s.I[0]
		return []Layer{g, stackL(s), mk(s, "*errutil.leafError", Leaf, S(0))}
	case "goerr":
		return []Layer{mk(s, "*errors.errorString", Leaf, S(0))}
	case "sentinel":
		e := Sentinels[S(0)]
		if S(0) == "user-lib" {
			return []Layer{stackL(s), mk(s, "*errutil.leafError", Leaf, e.Error())}
		}
		return []Layer{mk(s, fmt.Sprintf("%T", e), Leaf, e.Error())}
	case "pkgnew":
		l := mk(s, "*errors.fundamental", Leaf, S(0))
		l.Stack = true
		return []Layer{l}
	case "grpcstatus":
		return []Layer{mk(s, "*status.Error", Leaf, fmt.Sprintf("rpc error: code = %s desc = %s", codes.Code(s.I[0]), S(0)))}
	case "gogostatus":
		return []Layer{mk(s, "*status.statusError", Leaf, fmt.Sprintf("rpc error: code = %s desc = %s", codes.Code(s.I[0]), S(0)))}
	case "addrerr":
		t := S(0)
		if S(1) != "" {
			t = "address " + S(1) + ": " + t
		}
		return []Layer{mk(s, "*net.AddrError", Leaf, t)}
	case "dnsleaf":
		return []Layer{mk(s, "*net.DNSError", Leaf, "lookup "+S(1)+": "+S(0))}
	case "unknownnet":
		return []Layer{mk(s, "net.UnknownNetworkError", Leaf, "unknown network "+S(0))}
	case "uleafptr":
		return []Layer{mk(s, "*gen.ULeafPtr", Leaf, S(0))}
	case "uleafval":
		return []Layer{mk(s, "gen.ULeafVal", Leaf, S(0))}
	case "uleafnc":
		return []Layer{mk(s, "gen.ULeafNC", Leaf, S(0))}
	case "uleaffmtold":
		return []Layer{mk(s, "*gen.ULeafFmtOld", Leaf, S(0))}
	case "uleafformatter":
		return []Layer{mk(s, "*gen.ULeafFormatter", Leaf, S(0))}
	case "uleafsafefmt":
		return []Layer{mk(s, "*gen.ULeafSafeFmt", Leaf, S(0)+" "+S(1))}
	case "risleaf":
		l := mk(s, "*gen.RLeafIs", Leaf, S(0))
		l.IsOf = S(1)
		return []Layer{l}
	case "domnew":
		d := mk(s, "*domains.withDomain", Transparent, "")
		d.Domain = PkgDomain
		d.HasDom = true
		d.Ext = d.Domain
		return []Layer{d, mk(s, "*errors.errorString", Leaf, S(0))}
	case "rleaf":
		return []Layer{mk(s, "*gen.RLeaf", Leaf, S(0))}
	case "prototest":
		return []Layer{mk(s, "*errorspb.TestError", Leaf, "test error")}
	case "uoptleaf":
		return []Layer{mk(s, "*gen.UOpt", Leaf, S(0))}
	case "uleafas":
		return []Layer{mk(s, "*gen.ULeafAs", Leaf, S(0))}

	case "wrap":
		ls := []Layer{stackL(s)}
		if S(0) != "" {
			ls = append(ls, mk(s, "*errutil.withPrefix", Prefix, S(0)))
		}
		return ls
	case "wrapf":
		return []Layer{stackL(s), mk(s, "*errutil.withPrefix", Prefix, fmtText(s))}
	case "withmsg":
		return []Layer{mk(s, "*errutil.withPrefix", Prefix, S(0))}
	case "wrapf0":
		return []Layer{stackL(s), mk(s, "*errutil.withPrefix", Prefix, "lit "+S(0))}
	case "withmsgf0":
		return []Layer{mk(s, "*errutil.withPrefix", Prefix, "lit "+S(0))}
	case "safedetailsnofmt":
		return []Layer{mk(s, "*safedetails.withSafeDetails", Transparent, "")}
	case "wrapfgosyntax":
		sec := mk(s, "*secondary.withSecondaryError", Transparent, "")
		sec.Hidden = s.X
		// The message of a library error is built through redact, which
		// refuses %#v for an error argument: "%!v(<type>)".
		dump := "%!v(" + Chain(s.X[0])[0].Typ + ")"
		return []Layer{stackL(s), sec, mk(s, "*errutil.withPrefix", Prefix, "lit "+S(0)+" e="+dump)}
	case "wrapferrprec":
		sec := mk(s, "*secondary.withSecondaryError", Transparent, "")
		sec.Hidden = s.X
		return []Layer{stackL(s), sec, mk(s, "*errutil.withPrefix", Prefix, "lit "+S(0)+" e="+Text(s.X[0]))} // (the library ignores the precision: known finding F23)
	case "wrapferr":
		sec := mk(s, "*secondary.withSecondaryError", Transparent, "")
		sec.Hidden = s.X
		return []Layer{stackL(s), sec, mk(s, "*errutil.withPrefix", Prefix, "lit "+S(0)+" e="+Text(s.X[0]))}
	case "withmsgf":
		return []Layer{mk(s, "*errutil.withPrefix", Prefix, fmtText(s))}
	case "stack":
		return []Layer{stackL(s)}
	case "stackn":
		// a withStack layer with 1-3 frames (of the runtime and the test runner)
		return []Layer{stackL(s)}
	case "stackdeep":
		// a withStack layer that captured no frame: no reportable stack
		return []Layer{mk(s, "*withstack.withStack", Transparent, "")}
	case "hintf0":
		l := mk(s, "*hintdetail.withHint", Transparent, "")
		l.Hint = "lit " + S(0)
		return []Layer{l}
	case "detailf0":
		l := mk(s, "*hintdetail.withDetail", Transparent, "")
		l.Detail = "lit " + S(0)
		return []Layer{l}
	case "hint":
		l := mk(s, "*hintdetail.withHint", Transparent, "")
		l.Hint = S(0)
		return []Layer{l}
	case "detail":
		l := mk(s, "*hintdetail.withDetail", Transparent, "")
		l.Detail = S(0)
		return []Layer{l}
	case "hintf":
		l := mk(s, "*hintdetail.withHint", Transparent, "")
		l.Hint = fmtText(s)
		return []Layer{l}
	case "detailf":
		l := mk(s, "*hintdetail.withDetail", Transparent, "")
		l.Detail = fmtText(s)
		return []Layer{l}
	case "stwrap":
		g := mk(s, "*extgrpc.withGrpcCode", Transparent, "")
		g.GRPC = s.I[0]
		ls := []Layer{g, stackL(s)}
		if S(0) != "" {
			ls = append(ls, mk(s, "*errutil.withPrefix", Prefix, S(0)))
		}
		return ls
	case "safedetails":
		return []Layer{mk(s, "*safedetails.withSafeDetails", Transparent, "")}
	case "telemetry":
		l := mk(s, "*telemetrykeys.withTelemetry", Transparent, "")
		l.Keys = append([]string(nil), s.S...)
		return []Layer{l}
	case "domain":
		l := mk(s, "*domains.withDomain", Transparent, "")
		l.Domain = fmt.Sprintf("error domain: %q", S(0))
		if len(s.I) > 0 && s.I[0] == 1 {
			l.Domain = NoDomain
		}
		if len(s.I) > 0 && s.I[0] == 2 {
			l.Domain = ""
		}
		l.HasDom = true
		l.Ext = l.Domain
		return []Layer{l}
	case "issuelink":
		l := mk(s, "*issuelink.withIssueLink", Transparent, "")
		l.Link = &[2]string{S(0), S(1)}
		if S(0) != "" {
			l.Hint = "See: " + S(0)
		} else {
			l.Hint = stdstrings.IssueReferral
		}
		return []Layer{l}
	case "tags":
		l := mk(s, "*contexttags.withContext", Transparent, "")
		for i := 0; 2*i < len(s.S); i++ {
			v := S(2*i + 1)
			switch s.I[i] {
			case 1:
				v = ""
			case 3:
				v = fmt.Sprint(len(v))
			}
			// logtags: adding a tag whose key exists replaces its value in place.
			replaced := false
			for j := range l.Tags {
				if l.Tags[j][0] == S(2*i) {
					l.Tags[j][1] = v
					replaced = true
				}
			}
			if !replaced {
				l.Tags = append(l.Tags, [2]string{S(2 * i), v})
			}
		}
		return []Layer{l}
	case "assertion":
		l := mk(s, "*assert.withAssertionFailure", Transparent, "")
		l.Assert = true
		l.Hint = assert.AssertionErrorHint + stdstrings.IssueReferral
		return []Layer{l}
	case "mark":
		l := mk(s, "*markers.withMark", Transparent, "")
		l.Hidden = s.X
		return []Layer{l}
	case "secondary", "combine":
		l := mk(s, "*secondary.withSecondaryError", Transparent, "")
		l.Hidden = s.X
		return []Layer{l}
	case "handled":
		l := mk(s, "*barriers.barrierErr", Leaf, causeText())
		l.Hidden = []*Spec{s.C}
		return []Layer{l}
	case "handledmsg":
		l := mk(s, "*barriers.barrierErr", Leaf, S(0))
		l.Hidden = []*Spec{s.C}
		return []Layer{l}
	case "handledmsgf", "handledsafemsg":
		l := mk(s, "*barriers.barrierErr", Leaf, fmtText(s))
		l.Hidden = []*Spec{s.C}
		return []Layer{l}
	case "handledmsgf0":
		l := mk(s, "*barriers.barrierErr", Leaf, "lit "+S(0))
		l.Hidden = []*Spec{s.C}
		return []Layer{l}
	case "handleddomain":
		d := mk(s, "*domains.withDomain", Transparent, "")
		d.Domain = fmt.Sprintf("error domain: %q", S(0))
		d.HasDom = true
		d.Ext = d.Domain
		l := mk(s, "*barriers.barrierErr", Leaf, causeText())
		l.Hidden = []*Spec{s.C}
		return []Layer{d, l}
	case "handleddomainmsg":
		d := mk(s, "*domains.withDomain", Transparent, "")
		d.Domain = fmt.Sprintf("error domain: %q", S(0))
		d.HasDom = true
		d.Ext = d.Domain
		l := mk(s, "*barriers.barrierErr", Leaf, S(1))
		l.Hidden = []*Spec{s.C}
		return []Layer{d, l}
	case "domhandled":
		d := mk(s, "*domains.withDomain", Transparent, "")
		d.Domain = PkgDomain
		d.HasDom = true
		d.Ext = d.Domain
		l := mk(s, "*barriers.barrierErr", Leaf, causeText())
		l.Hidden = []*Spec{s.C}
		return []Layer{d, l}
	case "handleassert":
		a := mk(s, "*assert.withAssertionFailure", Transparent, "")
		a.Assert = true
		a.Hint = assert.AssertionErrorHint + stdstrings.IssueReferral
		l := mk(s, "*barriers.barrierErr", Leaf, causeText())
		l.Hidden = []*Spec{s.C}
		return []Layer{a, stackL(s), l}
	case "assertwrap":
		a := mk(s, "*assert.withAssertionFailure", Transparent, "")
		a.Assert = true
		a.Hint = assert.AssertionErrorHint + stdstrings.IssueReferral
		l := mk(s, "*barriers.barrierErr", Leaf, causeText())
		l.Hidden = []*Spec{s.C}
		return []Layer{a, stackL(s), mk(s, "*errutil.withPrefix", Prefix, fmtText(s)), l}
	case "assertwraperr":
		a := mk(s, "*assert.withAssertionFailure", Transparent, "")
		a.Assert = true
		a.Hint = assert.AssertionErrorHint + stdstrings.IssueReferral
		sec := mk(s, "*secondary.withSecondaryError", Transparent, "")
		sec.Hidden = s.X
		l := mk(s, "*barriers.barrierErr", Leaf, causeText())
		l.Hidden = []*Spec{s.C}
		return []Layer{a, stackL(s), sec, mk(s, "*errutil.withPrefix", Prefix, "lit "+S(0)+" e="+Text(s.X[0])), l}
	case "newfw":
		sec := mk(s, "*secondary.withSecondaryError", Transparent, "")
		sec.Hidden = []*Spec{s.C}
		return []Layer{stackL(s), sec, mk(s, "*errutil.withNewMessage", Full, fmtText(s)+": "+causeText())}
	case "newfwsuffix":
		sec := mk(s, "*secondary.withSecondaryError", Transparent, "")
		sec.Hidden = []*Spec{s.C}
		return []Layer{stackL(s), sec, mk(s, "*errutil.withNewMessage", Full, causeText()+" :: "+fmtText(s))}
	case "httpcode":
		l := mk(s, "*exthttp.withHTTPCode", Transparent, "")
		l.HTTP = s.I[0]
		return []Layer{l}
	case "grpccode":
		l := mk(s, "*extgrpc.withGrpcCode", Transparent, "")
		l.GRPC = s.I[0]
		return []Layer{l}
	case "goerrorf":
		return []Layer{mk(s, "*fmt.wrapError", Full, S(0)+": "+causeText())}
	case "goerrorfsuffix":
		return []Layer{mk(s, "*fmt.wrapError", Full, causeText()+" - "+S(0))}
	case "goerrorfecho":
		return []Layer{mk(s, "*fmt.wrapError", Full, S(0)+": "+causeText()+": "+causeText())}
	case "pkgmsgecho":
		return []Layer{mk(s, "*errors.withMessage", Full, S(0)+": "+causeText()+": "+causeText())}
	case "wrapecho":
		return []Layer{stackL(s), mk(s, "*errutil.withPrefix", Prefix, S(0)+": "+causeText())}
	case "ospath":
		return []Layer{mk(s, "*fs.PathError", Prefix, S(0)+" "+S(1))}
	case "oslink":
		return []Layer{mk(s, "*os.LinkError", Prefix, S(0)+" "+S(1)+" "+S(2))}
	case "ossyscall":
		return []Layer{mk(s, "*os.SyscallError", Prefix, S(0))}
	case "netop":
		p := S(0)
		if S(1) != "" {
			p += " " + S(1)
		}
		p += " " + S(2)
		return []Layer{mk(s, "*net.OpError", Prefix, p)}
	case "netopsrc":
		// what (*net.OpError).Error() prints
		p := S(0)
		if S(1) != "" {
			p += " " + S(1)
		}
		p += " " + S(2) + "->" + S(3)
		return []Layer{mk(s, "*net.OpError", Prefix, p)}
	case "dnswrap":
		return []Layer{mk(s, "*net.DNSError", Full, "lookup "+S(1)+": "+S(0))}
	case "pkgmsg":
		return []Layer{mk(s, "*errors.withMessage", Full, S(0)+": "+causeText())}
	case "pkgstack":
		l := mk(s, "*errors.withStack", Transparent, "")
		l.Stack = true
		return []Layer{l}
	case "pkgwrap":
		l := mk(s, "*errors.withStack", Transparent, "")
		l.Stack = true
		return []Layer{l, mk(s, "*errors.withMessage", Full, S(0)+": "+causeText())}
	case "uwrapnofmt":
		return []Layer{mk(s, "*gen.UWrapNoFmt", Full, S(0)+": "+causeText())}
	case "uwrapcause":
		return []Layer{mk(s, "*gen.UWrapCauseOnly", Full, S(0)+": "+causeText())}
	case "uwraptransparent":
		return []Layer{mk(s, "gen.UWrapTransparent", Transparent, "")}
	case "uwrapsuffix":
		return []Layer{mk(s, "*gen.UWrapSuffix", Full, causeText()+" - "+S(0))}
	case "uwrapoverride":
		return []Layer{mk(s, "*gen.UWrapOverride", Full, S(0))}
	case "uwrapformatter":
		return []Layer{mk(s, "*gen.UWrapFormatter", Full, S(0)+": "+causeText())}
	case "uwrapsafefmt":
		return []Layer{mk(s, "*gen.UWrapSafeFmt", Full, S(0)+" "+S(1)+": "+causeText())}
	case "uopt":
		return []Layer{mk(s, "*gen.UOpt", Full, S(0))}
	case "uwrapbothfmt":
		return []Layer{mk(s, "*gen.UWrapBothFmt", Full, S(0)+" "+S(1)+": "+causeText())}
	case "uwrapstackdetails":
		l := mk(s, "*gen.UWrapStackDetails", Full, S(1)+": "+causeText())
		l.Stack = true
		return []Layer{l}
	case "ucodedanon":
		return []Layer{mk(s, "struct { error; Code int }", Leaf, S(0))}
	case "uzeroa":
		return []Layer{mk(s, "*gen.ZeroA", Leaf, "zero-a")}
	case "uzerob":
		return []Layer{mk(s, "*gen.ZeroB", Leaf, "zero-b")}
	case "uwrapfmtold":
		return []Layer{mk(s, "*gen.UWrapFmtOld", Full, S(0)+": "+causeText())}
	case "rwrapfull":
		return []Layer{mk(s, "*gen.RWrapFull", Full, S(0))}
	case "uwrapasself":
		return []Layer{mk(s, "*gen.UWrapAsSelf", Full, S(0)+": "+causeText())}
	case "newfwerr":
		sec := mk(s, "*secondary.withSecondaryError", Transparent, "")
		sec.Hidden = []*Spec{s.X[0]}
		sec2 := mk(s, "*secondary.withSecondaryError", Transparent, "")
		sec2.Hidden = []*Spec{s.C}
		return []Layer{stackL(s), sec, sec2, mk(s, "*errutil.withNewMessage", Full, "lit "+S(0)+" e="+Text(s.X[0])+": "+causeText())}
	case "ukeymarker":
		l := mk(s, "*gen.UWrapKeyMarker", Transparent, "")
		l.Ext = S(0)
		return []Layer{l}
	case "uhinter":
		l := mk(s, "*gen.UWrapHinter", Transparent, "")
		l.Hint, l.Detail = S(0), S(1)
		return []Layer{l}

	case "join":
		var ts []string
		for _, x := range s.X {
			ts = append(ts, Text(x))
		}
		l := mk(s, "*join.joinError", Leaf, strings.Join(ts, "\n"))
		l.Multi = s.X
		return []Layer{stackL(s), l}
	case "subjoin":
		var ts []string
		for _, x := range s.X {
			ts = append(ts, Text(x))
		}
		l := mk(s, "*join.joinError", Leaf, strings.Join(ts, "\n"))
		l.Multi = s.X
		return []Layer{l}
	case "gojoin":
		var ts []string
		for _, x := range s.X {
			ts = append(ts, Text(x))
		}
		l := mk(s, "*errors.joinError", Leaf, strings.Join(ts, "\n"))
		l.Multi = s.X
		return []Layer{l}
	case "goerrorfmulti":
		l := mk(s, "*fmt.wrapErrors", Leaf, S(0)+": "+Text(s.X[0])+", "+Text(s.X[1]))
		l.Multi = s.X
		return []Layer{l}
	case "umulti":
		t := S(0)
		for _, x := range s.X {
			t += "; " + Text(x)
		}
		l := mk(s, "*gen.UMulti", Leaf, t)
		l.Multi = s.X
		return []Layer{l}
	case "umulticause":
		t := S(0)
		for _, x := range s.X {
			t += "; " + Text(x)
		}
		l := mk(s, "*gen.UMultiCause", Leaf, t)
		l.Multi = s.X
		return []Layer{l}
	case "umultias":
		t := S(0)
		for _, x := range s.X {
			t += "; " + Text(x)
		}
		l := mk(s, "*gen.UMultiAs", Leaf, t)
		l.Multi = s.X
		return []Layer{l}
	case "umulticauser":
		t := S(0)
		for _, x := range s.X {
			t += "; " + Text(x)
		}
		l := mk(s, "*gen.UMultiCauser", Leaf, t)
		l.Multi = s.X
		return []Layer{l}
	case "umultiholes":
		t := S(0)
		for _, x := range s.X {
			t += "; " + Text(x)
		}
		l := mk(s, "*gen.UMultiHoles", Leaf, t)
		l.Multi = s.X
		return []Layer{l}
	case "umultiis":
		t := S(0)
		for _, x := range s.X {
			t += "; " + Text(x)
		}
		l := mk(s, "*gen.UMultiIs", Leaf, t)
		l.Multi = s.X
		l.IsOf = S(1)
		return []Layer{l}
	case "rmulti":
		l := mk(s, "*gen.RMulti", Leaf, S(0))
		l.Multi = s.X
		return []Layer{l}
	}
	panic("model: unknown kind " + s.K)
}

// Chain1 returns the layers contributed by the node s alone.
func Chain1(s *Spec) []Layer { return layersOf(s) }

// NoDomain is the documented domain of an error without domain annotation.
const NoDomain = "error domain: <none>"

// ModelDomain is the domain of an error according to the model: that
// of the outermost domain annotation of its single-cause chain.
func ModelDomain(ls []Layer) string {
	for _, l := range ls {
		if l.HasDom {
			return l.Domain
		}
	}
	return NoDomain
}
