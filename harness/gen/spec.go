package gen

import (
	"encoding/json"
	"fmt"
	"hash/fnv"
	"strings"
)

// Spec is a pure-data description of an error tree: the constructor
// kind, its string and integer parameters, the wrapped error and the
// other sub-errors (multi-cause branches, secondary / hidden errors,
// Mark references).
type Spec struct {
	K string   `json:"k"`
	S []string `json:"s,omitempty"`
	I []int    `json:"i,omitempty"`
	C *Spec    `json:"c,omitempty"`
	X []*Spec  `json:"x,omitempty"`
}

func (s *Spec) String() string {
	var b strings.Builder
	s.write(&b)
	return b.String()
}

func (s *Spec) write(b *strings.Builder) {
	if s == nil {
		b.WriteString("nil")
		return
	}
	b.WriteString(s.K)
	b.WriteByte('(')
	sep := ""
	for _, x := range s.S {
		fmt.Fprintf(b, "%s%q", sep, x)
		sep = ","
	}
	for _, x := range s.I {
		fmt.Fprintf(b, "%s%d", sep, x)
		sep = ","
	}
	if s.C != nil {
		b.WriteString(sep)
		s.C.write(b)
		sep = ","
	}
	for _, x := range s.X {
		b.WriteString(sep + "|")
		x.write(b)
		sep = ","
	}
	b.WriteByte(')')
}

// Clone makes a deep copy.
func (s *Spec) Clone() *Spec {
	if s == nil {
		return nil
	}
	c := &Spec{K: s.K}
	c.S = append([]string(nil), s.S...)
	c.I = append([]int(nil), s.I...)
	c.C = s.C.Clone()
	for _, x := range s.X {
		c.X = append(c.X, x.Clone())
	}
	return c
}

// Nodes lists all spec nodes in pre-order (node, C, X...).
func (s *Spec) Nodes() []*Spec {
	var out []*Spec
	var rec func(*Spec)
	rec = func(n *Spec) {
		if n == nil {
			return
		}
		out = append(out, n)
		rec(n.C)
		for _, x := range n.X {
			rec(x)
		}
	}
	rec(s)
	return out
}

// Size is the number of spec nodes.
func (s *Spec) Size() int { return len(s.Nodes()) }

// Depth is the height of the spec tree.
func (s *Spec) Depth() int {
	if s == nil {
		return 0
	}
	d := s.C.Depth()
	for _, x := range s.X {
		if dx := x.Depth(); dx > d {
			d = dx
		}
	}
	return d + 1
}

// Kinds returns the set of kinds used in the tree.
func (s *Spec) Kinds() map[string]int {
	m := map[string]int{}
	for _, n := range s.Nodes() {
		m[n.K]++
	}
	return m
}

// Has tells whether any node has one of the given kinds.
func (s *Spec) Has(kinds ...string) bool {
	for _, n := range s.Nodes() {
		for _, k := range kinds {
			if n.K == k {
				return true
			}
		}
	}
	return false
}

// JSON is the canonical serialisation.
func (s *Spec) JSON() string {
	b, err := json.Marshal(s)
	if err != nil {
		panic(err)
	}
	return string(b)
}

// Hash is a 64-bit hash of the canonical serialisation.
func (s *Spec) Hash() uint64 {
	h := fnv.New64a()
	h.Write([]byte(s.JSON()))
	return h.Sum64()
}

// Slots returns a pointer to every *Spec slot of the tree rooted at
// *root, in pre-order (the root slot first).
func Slots(root **Spec) []**Spec {
	var out []**Spec
	var rec func(slot **Spec)
	rec = func(slot **Spec) {
		if *slot == nil {
			return
		}
		out = append(out, slot)
		s := *slot
		if s.C != nil {
			rec(&s.C)
		}
		for i := range s.X {
			rec(&s.X[i])
		}
	}
	rec(root)
	return out
}

// IsLeafSpec tells whether the node has no sub-errors.
func (s *Spec) IsLeafSpec() bool { return s.C == nil && len(s.X) == 0 }

// WellFormed tells whether the tree satisfies the structural
// preconditions of its kinds (used by the reducer).
func (s *Spec) WellFormed() bool {
	for _, n := range s.Nodes() {
		switch n.K {
		case "wrapfgosyntax", "wrapferr", "wrapferrprec", "assertwraperr", "mark", "secondary", "combine", "newfwerr":
			if len(n.X) != 1 || n.C == nil {
				return false
			}
		case "goerrorfmulti":
			if len(n.X) != 2 {
				return false
			}
		}
	}
	return true
}
