package gen

import "pgregory.net/rapid"

var siblings = map[string][]string{
	"wrap": {"withmsg"}, "withmsg": {"wrap", "goerrorf", "pkgmsg"}, "goerr": {"uleafptr", "new", "pkgnew", "uoptleaf"},
	"uleafptr": {"goerr", "uoptleaf", "rleaf"}, "hint": {"detail"}, "detail": {"hint"}, "uwrapnofmt": {"uwrapcause", "goerrorf", "pkgmsg"},
	"uopt": {"uwrapoverride", "rwrapfull"}, "uwrapoverride": {"uopt", "rwrapfull"}, "uoptleaf": {"uleafptr", "goerr"}, "new": {"goerr"},
	"goerrorf": {"uwrapnofmt", "pkgmsg", "withmsg"}, "pkgmsg": {"goerrorf", "uwrapnofmt"}, "handled": {"domhandled"},
	"join": {"gojoin", "subjoin"}, "subjoin": {"join", "gojoin"}, "gojoin": {"join"}, "rleaf": {"uleafptr"}, "uleafval": {"uleafptr"}, "uleafnc": {"uleafval"},
	"grpcstatus": {"gogostatus"}, "gogostatus": {"grpcstatus"}, "domain": {"handleddomain"},
}

// Perturb returns a near-equal copy of the tree: exactly one message,
// one type, one domain changed, or one layer added or removed at a
// drawn position.
func Perturb(t *rapid.T, spec *Spec) (*Spec, string) {
	c := spec.Clone()
	slots := Slots(&c)
	sl := slots[rapid.IntRange(0, len(slots)-1).Draw(t, "perturb-pos")]
	n := *sl
	switch rapid.IntRange(0, 5).Draw(t, "perturb") {
	case 0: // one message
		if len(n.S) > 0 && n.K != "sentinel" && n.K != "risleaf" {
			n.S[0] += "x"
			return c, "message"
		}
	case 1: // one type
		if sib, ok := siblings[n.K]; ok {
			k := rapid.SampledFrom(sib).Draw(t, "sibling")
			// Only swap between kinds with the same parameter layout.
			n.K = k
			return c, "type"
		}
	case 2: // extra layer
		w := rapid.SampledFrom([]string{"stack", "assertion", "uwraptransparent", "pkgstack"}).Draw(t, "extra")
		*sl = &Spec{K: w, C: n}
		return c, "extra layer"
	case 3: // missing layer
		if n.C != nil && len(n.X) == 0 {
			*sl = n.C
			return c, "missing layer"
		}
	case 4: // one domain
		for _, m := range c.Nodes() {
			if m.K == "domain" || m.K == "handleddomain" || m.K == "handleddomainmsg" || m.K == "ukeymarker" {
				m.S[0] += "x"
				return c, "domain"
			}
		}
		*sl = &Spec{K: "domain", S: []string{"Q999Zdom"}, C: n}
		return c, "domain"
	case 5: // leaf-or-wrapper types: drop or add the cause of a UOpt / DNSError
		switch n.K {
		case "uopt":
			*sl = &Spec{K: "uoptleaf", S: n.S}
			return c, "cause removed"
		case "uoptleaf":
			*sl = &Spec{K: "uopt", S: n.S, C: &Spec{K: "goerr", S: []string{"Q998Zc"}}}
			return c, "cause added"
		case "dnswrap":
			*sl = &Spec{K: "dnsleaf", S: n.S}
			return c, "cause removed"
		case "dnsleaf":
			*sl = &Spec{K: "dnswrap", S: n.S, C: &Spec{K: "goerr", S: []string{"Q998Zc"}}}
			return c, "cause added"
		}
	}
	return c, "identical copy"
}
