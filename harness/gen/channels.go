package gen

import "regexp"

// TokRe matches the unique searchable tokens embedded in every
// generated string.
var TokRe = regexp.MustCompile(`Q\d\d\dZ`)

// Tokens returns the tokens in s.
func Tokens(s string) []string { return TokRe.FindAllString(s, -1) }

// Taint classifies every token of a tree by the channel(s) its
// string entered the error through.
type Taint struct {
	// Unsafe: entered through a channel the property list declares
	// unsafe (non-Safe() format argument, message of a non-library
	// error, hint, detail, file path, network address, tag value,
	// overriding barrier message, message of a Mark reference).
	Unsafe map[string]bool
	// Safe: entered through a channel the library declares PII-free
	// (constant message / format literal, Safe() argument, telemetry
	// key, domain, issue link, tag key).
	Safe map[string]bool
	// Neutral: neither is claimed (parts a user type itself declares
	// safe, domains inside a Mark reference, values of valueless tags).
	Neutral map[string]bool
}

// UnsafeOnly lists the tokens that must never reach a PII-free sink.
func (t *Taint) UnsafeOnly() map[string]bool {
	out := map[string]bool{}
	for k := range t.Unsafe {
		if !t.Safe[k] && !t.Neutral[k] {
			out[k] = true
		}
	}
	return out
}

// Classify computes the taint of all tokens of the tree.
func Classify(s *Spec) *Taint {
	t := &Taint{Unsafe: map[string]bool{}, Safe: map[string]bool{}, Neutral: map[string]bool{}}
	classify(s, t, false)
	return t
}

func classify(s *Spec, t *Taint, inMark bool) {
	mark := func(m map[string]bool, str string) {
		for _, tk := range Tokens(str) {
			m[tk] = true
		}
	}
	U := func(i int) { mark(t.Unsafe, s.S[i]) }
	Sf := func(i int) {
		if inMark {
			// Inside a Mark reference only the reference's message (and
			// its type marks) are used: the message is an unsafe channel.
			mark(t.Unsafe, s.S[i])
			return
		}
		mark(t.Safe, s.S[i])
	}
	N := func(i int) { mark(t.Neutral, s.S[i]) }
	switch s.K {
	case "unimplf":
		// the message of an unimplemented error is "non-reportable for now" (all of it)
		U(0)
		U(1)
		U(2)
		Sf(3)
		Sf(4)
	case "hintf0", "detailf0":
		U(0)
	case "hintf", "detailf":
		// hints and details are unsafe as a whole
		U(0)
		U(1)
		U(2)
	case "safedetailsnofmt":
		U(0)
		Sf(1)
	case "new", "newf0", "assertf0", "wrapf0", "withmsgf0", "wrap", "wrapecho", "withmsg", "wrapferr", "wrapferrprec", "assertwraperr", "newfwerr", "wrapfgosyntax", "handledmsgf0", "stleaf", "stwrap":
		Sf(0)
	case "newf", "assertf", "wrapf", "withmsgf", "safedetails", "assertwrap", "newfw", "newfwsuffix", "handledmsgf", "handledsafemsg":
		Sf(0)
		U(1)
		Sf(2)
	case "unimpl":
		U(0)
		Sf(1)
		Sf(2)
	case "gogostatus":
		U(0)
		U(1)
	case "domnew", "goerr", "ucodedanon", "pkgnew", "grpcstatus", "unknownnet", "uleafptr", "uleafval", "uleafnc", "uleaffmtold", "rleaf", "risleaf", "uoptleaf",
		"hint", "detail", "handledmsg", "goerrorf", "goerrorfsuffix", "goerrorfecho", "pkgmsgecho", "pkgmsg", "pkgwrap", "uwrapnofmt", "uwrapcause", "uwrapsuffix", "uwrapoverride", "uopt", "uwrapfmtold", "rwrapfull", "uwrapasself", "uleafas",
		"goerrorfmulti", "umulti", "rmulti", "umulticause", "umulticauser", "umultias", "umultiis", "umultiholes":
		U(0)
	case "addrerr", "dnsleaf", "dnswrap", "uleafformatter", "uwrapformatter", "uhinter":
		U(0)
		U(1)
	case "uwrapstackdetails":
		N(0) // reported by the type's own SafeDetails(): claimed by C12 on the visible chain only
		U(1)
	case "uleafsafefmt", "uwrapsafefmt", "uwrapbothfmt":
		N(0)
		U(1)
	case "telemetry":
		for i := range s.S {
			Sf(i)
		}
	case "ukeymarker":
		N(0) // a type-mark extension declared by a user type
	case "domain", "handleddomain":
		if inMark || (s.K == "domain" && len(s.I) > 0 && s.I[0] != 0) {
			// type-mark extensions are safe by declaration; with NoDomain
			// or Domain("") the drawn name is not used at all
			N(0)
		} else {
			Sf(0)
		}
	case "handleddomainmsg":
		if inMark {
			N(0)
		} else {
			Sf(0)
		}
		U(1)
	case "issuelink":
		Sf(0)
		Sf(1)
	case "tags":
		for i := 0; 2*i < len(s.S); i++ {
			Sf(2 * i)
			switch s.I[i] {
			case 0:
				U(2*i + 1)
			default: // a SafeString value (kept locally, not claimed after transfer), no value, or only its length
				N(2*i + 1)
			}
		}
	case "ospath":
		U(1)
	case "oslink":
		U(1)
		U(2)
	case "netop":
		U(2)
	case "netopsrc":
		U(2)
		U(3)
	}
	if s.K == "wrapecho" && s.C != nil {
		// The caller put a copy of the cause's text into a message the
		// library takes for a constant: those strings entered through a
		// safe channel as well, so nothing is claimed about them.
		for _, tk := range Tokens(Text(s.C)) {
			t.Neutral[tk] = true
		}
	}
	if s.C != nil {
		classify(s.C, t, inMark)
	}
	for _, x := range s.X {
		classify(x, t, inMark || s.K == "mark")
	}
}
