package gen

import "pgregory.net/rapid"

// Examples returns one deterministic example tree per constructor
// kind (leaves alone, wrappers around a plain leaf, multi-cause nodes
// with plain branches). Used to enumerate payload types, to seed
// fuzzing corpora and as the catalogue of library layers.
func Examples() []*Spec {
	var out []*Spec
	g := Default(Regular())
	leaf := func() *Spec { return &Spec{K: "goerr", S: []string{"inner Q900Z"}} }
	for _, k := range LeafKinds {
		k := k
		out = append(out, rapid.Custom(func(t *rapid.T) *Spec { rapid.Bool().Draw(t, "pad"); return g.LeafOf(t, k) }).Example(1))
	}
	for _, k := range WrapKinds {
		k := k
		s := rapid.Custom(func(t *rapid.T) *Spec { rapid.Bool().Draw(t, "pad"); return g.WrapOf(t, k, leaf()) }).Example(1)
		for i := range s.X {
			s.X[i] = &Spec{K: "new", S: []string{"other Q901Z"}}
		}
		out = append(out, s)
	}
	for _, k := range MultiKinds {
		k := k
		s := rapid.Custom(func(t *rapid.T) *Spec { rapid.Bool().Draw(t, "pad"); return g.MultiOf(t, k) }).Example(1)
		for i := range s.X {
			s.X[i] = leaf()
		}
		out = append(out, s)
	}
	// Sentinels that have payloads or special encoders.
	for _, n := range []string{"enoent", "ctx-deadline", "ctx-canceled", "os-notexist"} {
		out = append(out, &Spec{K: "sentinel", S: []string{n}})
	}
	return out
}

// StackCapturingKinds lists the default kinds whose own layers record
// a stack trace (computed from the model of one example per kind).
func StackCapturingKinds() []string {
	var out []string
	for _, ex := range Examples() {
		for _, l := range Chain1(ex) {
			if l.Stack && !in(ex.K, out) {
				out = append(out, ex.K)
			}
		}
	}
	return out
}
