package gen

import "pgregory.net/rapid"

// Structural extremes. Ordinary generation stays below depth 8, three
// branches, three keys and a few dozen bytes per string; limits inside
// the code under test (a scratch array of 16 or 64 entries, a sort
// that changes algorithm at 12 elements, a 32-byte indentation
// constant, a 64 KiB cut) sit far outside that. One case in
// XRate draws one extreme: a chain of tens of layers of one kind, a
// multi-cause node with tens of branches, a deep chain inside a
// branch, tens of telemetry keys, a string of tens of kilobytes.
// The sizes are around powers of two; rapid shrinks towards the
// smallest.

var extremeDepths = []int{13, 17, 20, 33, 65, 70}
var extremeWidths = []int{13, 17, 33, 65}

// deepKinds: wrappers cheap enough to stack by the dozen.
var deepKinds = []string{"withmsg", "wrap", "stack", "hint", "detail", "domain", "goerrorf", "uwrapnofmt", "telemetry", "uwrapcause", "pkgmsg", "httpcode"}

// Extreme draws a tree with one structural extreme around a small
// ordinary tree. classes restricts the kinds of extreme (nil: all of
// "deep", "wide", "deep-branch", "keys", "long").
func (g *Cfg) Extreme(t *rapid.T, classes ...string) *Spec {
	if len(classes) == 0 {
		classes = []string{"deep", "deep", "wide", "deep-branch", "keys", "long", "deep-markref"}
	}
	b := 3
	base := g.draw(t, &b, 1)
	stackOf := func(s *Spec, k string, n int) *Spec {
		for i := 0; i < n; i++ {
			w := g.WrapOf(t, k, s)
			for j := range w.X {
				w.X[j] = g.LeafOf(t, "goerr")
			}
			s = w
		}
		return s
	}
	var ks []string
	for _, k := range deepKinds {
		if in(k, g.Wraps) {
			ks = append(ks, k)
		}
	}
	switch rapid.SampledFrom(classes).Draw(t, "extreme") {
	case "deep":
		return stackOf(base, rapid.SampledFrom(ks).Draw(t, "deepkind"), rapid.SampledFrom(extremeDepths).Draw(t, "depth"))
	case "wide":
		mk := "join"
		if len(g.Multi) > 0 {
			mk = rapid.SampledFrom(g.Multi).Draw(t, "widekind")
		}
		if mk == "goerrorfmulti" {
			mk = "gojoin"
		}
		s := g.MultiOf(t, mk)
		n := rapid.SampledFrom(extremeWidths).Draw(t, "width")
		s.X = make([]*Spec, n)
		if len(s.I) > 0 {
			s.I[0] = 0
		}
		for i := range s.X {
			s.X[i] = g.LeafOf(t, rapid.SampledFrom([]string{"new", "goerr"}).Draw(t, "leafkind"))
		}
		s.X[rapid.IntRange(0, n-1).Draw(t, "basepos")] = base
		return s
	case "deep-branch":
		mk := "join"
		if len(g.Multi) > 0 && !in("join", g.Multi) {
			mk = g.Multi[0]
		}
		s := g.MultiOf(t, mk)
		if mk == "goerrorfmulti" {
			s.X = make([]*Spec, 2)
		}
		if len(s.I) > 0 {
			s.I[0] = 0
		}
		for i := range s.X {
			s.X[i] = g.LeafOf(t, "goerr")
		}
		s.X[rapid.IntRange(0, len(s.X)-1).Draw(t, "deeppos")] = stackOf(base, rapid.SampledFrom(ks).Draw(t, "deepkind"), rapid.SampledFrom([]int{17, 20, 33, 40}).Draw(t, "depth"))
		return s
	case "deep-markref":
		// Mark with a reference that is a much deeper chain than the
		// marked error itself.
		ref := stackOf(g.LeafOf(t, "goerr"), rapid.SampledFrom(ks).Draw(t, "deepkind"), rapid.SampledFrom([]int{17, 20, 33}).Draw(t, "depth"))
		if !in("mark", g.Wraps) {
			return ref
		}
		return &Spec{K: "wrap", S: []string{g.Str(t, "msg")}, C: &Spec{K: "mark", C: base, X: []*Spec{ref}}}
	case "keys":
		w := g.WrapOf(t, "telemetry", base)
		w.S = nil
		for i, n := 0, rapid.SampledFrom([]int{16, 17, 20, 33, 65}).Draw(t, "nkeys"); i < n; i++ {
			w.S = append(w.S, g.Str(t, "key"))
		}
		return w
	default: // "long"
		k := rapid.SampledFrom([]string{"safedetails", "withmsg", "hint", "telemetry"}).Draw(t, "longkind")
		w := g.WrapOf(t, k, base)
		n := rapid.SampledFrom([]int{65535, 65536, 65537, 70000}).Draw(t, "length")
		pad := make([]byte, n)
		for i := range pad {
			pad[i] = 'p'
		}
		if len(w.S) == 0 {
			w.S = []string{g.Str(t, "key")}
		}
		idx := len(w.S) - 1
		w.S[idx] += string(pad)
		return w
	}
}
