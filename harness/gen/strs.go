package gen

import (
	"fmt"
	"strings"
	"unicode/utf8"

	"pgregory.net/rapid"
)

var regularAtoms = []string{
	"a", "foo", "bar baz", ": ", "%", "%d", "%s", "%w", "%!v(", "\"", "'", "`", "é", "日本", "\t", "-", "x: y", " :", ":", "100%", "\\", "{}", "×", "?", " ", "  ", "\r", " ", "(1)", "Wraps: (2)", "--", "|",
}

var hostileAtoms = []string{
	"‹", "›", "‹×›", "›‹", "\n", "\n\n", "\x00", "\xff", "\xe2\x80", "\xe2", "\x80\xb9", "%s", "%!", "",
}

// padSizes: lengths of the filler appended to about one string in
// twenty, around the powers of two where buffers, titles and limits
// tend to sit.
var padSizes = []int{31, 64, 127, 128, 200, 255, 256, 257, 300, 512, 1024, 4097}

// pad draws the filler of one string: a run of one letter (usually
// none; rapid shrinks towards none).
func pad(t *rapid.T, label string) string {
	if rapid.IntRange(0, 19).Draw(t, label+"#haspad") != 19 {
		return ""
	}
	return strings.Repeat("p", rapid.SampledFrom(padSizes).Draw(t, label+"#pad"))
}

// withPad places the filler before or after the rest.
func withPad(t *rapid.T, label, s string) string {
	if p := pad(t, label); p != "" {
		if rapid.Bool().Draw(t, label+"#padfirst") {
			return p + s
		}
		return s + p
	}
	return s
}

// Regular returns a generator of regular strings with unique tokens.
func Regular() StrGen {
	n := 0
	return func(t *rapid.T, label string) string {
		n++
		tok := fmt.Sprintf("Q%03dZ", n)
		k := rapid.IntRange(0, 3).Draw(t, label+"#n")
		s := ""
		for i := 0; i < k; i++ {
			s += rapid.SampledFrom(regularAtoms).Draw(t, label+"#a")
		}
		pos := rapid.IntRange(0, 2).Draw(t, label+"#p")
		switch pos {
		case 0:
			s = tok + s
		case 1:
			s = s + tok
		default:
			// token, newline, rest (newline interior and isolated)
			if s != "" {
				s = tok + s + "\n" + "z" + tok[1:]
			} else {
				s = tok
			}
		}
		return withPad(t, label, s)
	}
}

// Hostile returns a generator of hostile strings with unique tokens.
func Hostile() StrGen {
	n := 0
	return func(t *rapid.T, label string) string {
		n++
		tok := fmt.Sprintf("Q%03dZ", n)
		pre, post := "", ""
		for i, k := 0, rapid.IntRange(0, 2).Draw(t, label+"#n"); i < k; i++ {
			pre += rapid.SampledFrom(append(hostileAtoms, regularAtoms...)).Draw(t, label+"#a")
		}
		for i, k := 0, rapid.IntRange(0, 2).Draw(t, label+"#m"); i < k; i++ {
			post += rapid.SampledFrom(append(hostileAtoms, regularAtoms...)).Draw(t, label+"#b")
		}
		return withPad(t, label, pre+tok+post)
	}
}

// markerFreeAtoms: the hostile atoms that are valid UTF-8 without
// redaction markers (newlines at any position, NUL, printf verbs).
var markerFreeAtoms = []string{"\n", "\n\n", "\x00", "%s", "%!", "\n", "\r\n"}

// MarkerFree returns a generator of non-empty valid UTF-8 strings
// without marker runes, with newlines at any position.
func MarkerFree() StrGen {
	n := 0
	return func(t *rapid.T, label string) string {
		n++
		tok := fmt.Sprintf("Q%03dZ", n)
		pre, post := "", ""
		for i, k := 0, rapid.IntRange(0, 2).Draw(t, label+"#n"); i < k; i++ {
			pre += rapid.SampledFrom(append(markerFreeAtoms, regularAtoms...)).Draw(t, label+"#a")
		}
		for i, k := 0, rapid.IntRange(0, 2).Draw(t, label+"#m"); i < k; i++ {
			post += rapid.SampledFrom(append(markerFreeAtoms, regularAtoms...)).Draw(t, label+"#b")
		}
		return withPad(t, label, pre+tok+post)
	}
}

// IsRegular tells whether s belongs to the regular alphabet of the
// property list: non-empty valid UTF-8 without the redaction marker
// runes, every newline interior and isolated.
func IsRegular(s string) bool {
	if s == "" || !utf8.ValidString(s) || strings.ContainsAny(s, "‹›") {
		return false
	}
	if s[0] == '\n' || s[len(s)-1] == '\n' || strings.Contains(s, "\n\n") {
		return false
	}
	return true
}

// SpecRegular tells whether all generated strings of the tree are
// regular (sentinel names, fixed operation names and empty optional
// fields such as a missing URL are not generated strings).
func SpecRegular(s *Spec) bool {
	for _, n := range s.Nodes() {
		if n.K == "sentinel" {
			continue
		}
		for i, x := range n.S {
			if x == "" && optionalEmpty(n.K, i) {
				continue
			}
			if !IsRegular(x) {
				return false
			}
		}
	}
	return true
}

// SpecMarkerFree tells whether all generated strings of the tree are
// non-empty valid UTF-8 without the redaction marker runes (newlines
// may be anywhere).
func SpecMarkerFree(s *Spec) bool {
	for _, n := range s.Nodes() {
		if n.K == "sentinel" {
			continue
		}
		for i, x := range n.S {
			if x == "" && optionalEmpty(n.K, i) {
				continue
			}
			if x == "" || !utf8.ValidString(x) || strings.ContainsAny(x, "‹›") {
				return false
			}
		}
	}
	return true
}

func optionalEmpty(k string, i int) bool {
	switch k {
	case "unimpl":
		return i == 1
	case "issuelink":
		return i == 0
	case "netop", "netopsrc":
		return i == 1
	case "telemetry":
		return true
	case "ospath":
		return i == 1
	case "oslink":
		return i == 1 || i == 2
	}
	return false
}

// Empty strings. The library's text machinery is only well defined
// for non-empty messages (observed: with an empty innermost message
// `%s` of a wrapper drops the trailing ": " that Error() keeps, and
// the prefix inference for foreign wrappers cannot tell an empty
// prefix from none; the property list restricts C01, C09 and C10 to
// non-empty strings for that reason). Empty strings are therefore
// generated only where no other text depends on them or where the
// library documents what they mean: as hint or detail, as the prefix
// of WithMessage / Wrap ("the cause text alone when the prefix is
// empty"), and as the own message of an *outermost* wrapper that
// replaces the whole message.
var emptyAnywhere = []string{"hint", "detail", "withmsg", "wrap"}
var emptyAtRoot = []string{"uwrapoverride", "uopt", "rwrapfull", "handledmsg"}

// A Mark reference that is a bare leaf may have the empty message:
// nothing but the mark is taken from it.
var emptyAsMarkRef = []string{"new", "goerr", "pkgnew", "uleafptr"}

// emptyOK lists, per node, the index of the string that may be empty.
func emptyOK(s *Spec) map[*Spec]int {
	ok := map[*Spec]int{}
	for i, n := range s.Nodes() {
		if len(n.S) > 0 && (in(n.K, emptyAnywhere) || (i == 0 && in(n.K, emptyAtRoot))) {
			ok[n] = 0
		}
		if i == 0 && n.K == "handleddomainmsg" && len(n.S) > 1 {
			ok[n] = 1 // the overriding message
		}
		if n.K == "mark" && len(n.X) == 1 && n.X[0] != nil && in(n.X[0].K, emptyAsMarkRef) && len(n.X[0].S) > 0 {
			ok[n.X[0]] = 0
		}
	}
	return ok
}

// SprinkleEmpty sets some of those strings to "".
func SprinkleEmpty(t *rapid.T, s *Spec) {
	ok := emptyOK(s)
	for _, n := range s.Nodes() {
		if idx, allowed := ok[n]; allowed && rapid.IntRange(0, 3).Draw(t, "empty") == 0 {
			n.S[idx] = ""
		}
	}
}

// SpecRegularOrEmpty: every generated string is regular, or empty at
// a position where EmptyOK allows it.
func SpecRegularOrEmpty(s *Spec) bool {
	ok := emptyOK(s)
	for _, n := range s.Nodes() {
		if n.K == "sentinel" {
			continue
		}
		for i, x := range n.S {
			if idx, allowed := ok[n]; x == "" && (optionalEmpty(n.K, i) || (allowed && i == idx)) {
				continue
			}
			if !IsRegular(x) {
				return false
			}
		}
	}
	return true
}

// repeatable: annotation kinds for which the same content on two
// layers of one tree is ordinary (and where de-duplication, set union
// or "outermost wins" logic lives).
var repeatable = []string{"hint", "hintf0", "detail", "detailf0", "telemetry", "domain", "issuelink", "tags", "withmsg", "wrap", "httpcode", "grpccode", "safedetails"}

// SprinkleRepeats makes some annotation layers of the tree carry the
// same content as an earlier layer of the same kind (the generator's
// unique tokens would otherwise never produce a repeated hint, key,
// domain or tag).
func SprinkleRepeats(t *rapid.T, s *Spec) {
	nodes := s.Nodes()
	for i, n := range nodes {
		if !in(n.K, repeatable) {
			continue
		}
		for _, m := range nodes[i+1:] {
			if m.K == n.K && len(m.S) == len(n.S) && len(m.I) == len(n.I) && rapid.IntRange(0, 2).Draw(t, "repeat") == 0 {
				copy(m.S, n.S)
				copy(m.I, n.I)
			}
		}
	}
}

// WithRepeatedAnnotations wraps s in 2-5 hint / detail / telemetry /
// domain layers whose contents come from a pool of two strings, so
// that equal and different contents alternate in one chain (what
// de-duplication and ordering logic is about).
func WithRepeatedAnnotations(t *rapid.T, g *Cfg, s *Spec) *Spec {
	pool := []string{g.Str(t, "poolA"), g.Str(t, "poolB")}
	k := rapid.SampledFrom([]string{"hint", "hint", "detail", "telemetry", "domain"}).Draw(t, "repeatedkind")
	for i, n := 0, rapid.IntRange(2, 5).Draw(t, "repeats"); i < n; i++ {
		w := g.WrapOf(t, k, s)
		v := pool[rapid.IntRange(0, 1).Draw(t, "which")]
		if k == "telemetry" {
			w.S = []string{v}
		} else {
			w.S[0] = v
		}
		if k == "domain" {
			w.I = []int{0}
		}
		s = w
	}
	return s
}

// SentinelPrefix puts the text of the sentinel an `risleaf` claims to
// be (through its Is method) in front of its own message, in a third
// of those leaves: an error that claims to be a well-known sentinel
// may carry any message, and only the sentinel's exact text is known
// to be safe (seeded change C03-15 widened that to a prefix match).
func SentinelPrefix(t *rapid.T, s *Spec) (n int) {
	for _, nd := range s.Nodes() {
		if nd.K == "risleaf" && len(nd.S) == 2 && Sentinels[nd.S[1]] != nil && rapid.IntRange(0, 2).Draw(t, "sentinelprefix") == 0 {
			nd.S[0] = Sentinels[nd.S[1]].Error() + nd.S[0]
			n++
		}
	}
	return n
}
