package gen

import (
	"context"
	goErr "errors"
	"io"
	"os"
	"strings"
	"syscall"

	"github.com/cockroachdb/errors"
	"pgregory.net/rapid"
)

// Sentinels: the pool of reference errors.
var (
	UserSentinelLib = errors.New("user sentinel lib")
	UserSentinelGo  = goErr.New("user sentinel go")
	UserSentinelVal = ULeafVal{"user sentinel val"}
)

var Sentinels = map[string]error{
	"ctx-canceled":  context.Canceled,
	"ctx-deadline":  context.DeadlineExceeded,
	"os-notexist":   os.ErrNotExist,
	"os-exist":      os.ErrExist,
	"os-permission": os.ErrPermission,
	"os-closed":     os.ErrClosed,
	"os-invalid":    os.ErrInvalid,
	"io-eof":        io.EOF,
	"io-ueof":       io.ErrUnexpectedEOF,
	"user-lib":      UserSentinelLib,
	"user-go":       UserSentinelGo,
	"user-val":      UserSentinelVal,
	"enoent":        syscall.ENOENT,
	"eacces":        syscall.EACCES,
	"eexist":        syscall.EEXIST,
	"etimedout":     syscall.ETIMEDOUT,
	"eagain":        syscall.EAGAIN,
}

var SentinelNames = func() []string {
	var r []string
	for k := range Sentinels {
		r = append(r, k)
	}
	SortStrings(r)
	return r
}()

// SortStrings is an insertion sort (no dependency on package sort's
// instability for equal keys; inputs are tiny).
func SortStrings(a []string) {
	for i := 1; i < len(a); i++ {
		for j := i; j > 0 && a[j] < a[j-1]; j-- {
			a[j], a[j-1] = a[j-1], a[j]
		}
	}
}

var LeafKinds = []string{
	"new", "newf", "newf0", "assertf", "assertf0", "unimpl", "unimplf", "stleaf", "domnew", "goerr", "sentinel", "pkgnew",
	"grpcstatus", "gogostatus", "addrerr", "dnsleaf", "unknownnet",
	"uleafptr", "uleafval", "uleafnc", "uleaffmtold", "uleafformatter", "uleafsafefmt",
	"rleaf", "risleaf", "prototest", "uoptleaf", "uleafas",
}

var WrapKinds = []string{
	"wrap", "wrapf", "wrapf0", "withmsg", "withmsgf", "withmsgf0", "safedetailsnofmt", "stack", "stackdeep", "stackn", "hint", "hintf0", "detailf0", "hintf", "detail", "detailf", "safedetails", "stwrap",
	"telemetry", "domain", "issuelink", "tags", "assertion", "mark", "secondary", "combine", "wrapferr", "wrapferrprec", "wrapfgosyntax",
	"handled", "handledmsg", "handledmsgf", "handledmsgf0", "handledsafemsg", "handleddomain", "handleddomainmsg", "domhandled", "handleassert", "assertwrap", "assertwraperr",
	"newfw", "newfwsuffix", "httpcode", "grpccode",
	"goerrorf", "goerrorfsuffix", "goerrorfecho", "pkgmsgecho", "wrapecho", "ospath", "oslink", "ossyscall", "netop", "dnswrap",
	"pkgmsg", "pkgstack", "pkgwrap",
	"uwrapnofmt", "uwrapcause", "uwraptransparent", "uwrapsuffix", "uwrapoverride",
	"uwrapformatter", "uwrapsafefmt", "uopt", "uwrapfmtold", "rwrapfull", "uwrapasself", "newfwerr", "ukeymarker",
}

var MultiKinds = []string{"join", "subjoin", "gojoin", "goerrorfmulti", "umulti", "rmulti", "umulticause", "umultias"}

// BarrierKinds hide their C behind a barrier.
var BarrierKinds = []string{"handled", "handledmsg", "handledmsgf", "handledmsgf0", "handledsafemsg", "handleddomain", "handleddomainmsg", "domhandled", "handleassert", "assertwrap", "assertwraperr"}

// SecondaryKinds keep their X sub-errors as secondary errors (hidden
// from cause analysis, shown in %+v).
var SecondaryKinds = []string{"secondary", "combine", "wrapferr", "wrapferrprec", "newfwerr", "assertwraperr"}

func IsSecondaryKind(k string) bool { return in(k, SecondaryKinds) }

func IsBarrierKind(k string) bool { return in(k, BarrierKinds) }

// Kinds outside the default configuration, enabled per property with
// Cfg.With: umulticauser (a multi-cause type that also has Cause) and
// umultiis (a multi-cause type with an Is method, lost in transfer)
// only make sense for the local differential checks; uhinter for the
// accessor checks; netopsrc (a net.OpError with Source and Addr)
// because the library renders it differently from its Error() (known
// finding F21), which every text-comparing check would report again.
var ExtraWrapKinds = []string{"uhinter", "netopsrc", "uwrapbothfmt", "uwrapstackdetails"}
var ExtraMultiKinds = []string{"umulticauser", "umultiis", "umultiholes"}
var ExtraLeafKinds = []string{"uzeroa", "uzerob", "ucodedanon"}

func IsMultiKind(k string) bool { return in(k, MultiKinds) || in(k, ExtraMultiKinds) }

func in(k string, l []string) bool {
	for _, x := range l {
		if x == k {
			return true
		}
	}
	return false
}

type StrGen func(t *rapid.T, label string) string

// Cfg controls tree generation.
type Cfg struct {
	Str                  StrGen
	MaxDepth             int
	Leaves, Wraps, Multi []string
	WLeaf, WWrap, WMulti int
	// XRate: one tree in XRate is a structural extreme (see extreme.go);
	// 0 turns them off. XClasses restricts their kinds.
	XRate    int
	XClasses []string
}

// Default configuration: all kinds, weights 2/7/1.
func Default(str StrGen) *Cfg {
	return &Cfg{Str: str, MaxDepth: 8, Leaves: LeafKinds, Wraps: WrapKinds, Multi: MultiKinds, WLeaf: 2, WWrap: 7, WMulti: 1, XRate: 60}
}

// Without returns a copy of the configuration minus the given kinds.
func (g *Cfg) Without(kinds ...string) *Cfg {
	c := *g
	f := func(l []string) []string {
		var out []string
		for _, k := range l {
			if !in(k, kinds) {
				out = append(out, k)
			}
		}
		return out
	}
	c.Leaves, c.Wraps, c.Multi = f(g.Leaves), f(g.Wraps), f(g.Multi)
	return &c
}

// With returns a copy of the configuration plus the given kinds
// (which may be outside the default lists).
func (g *Cfg) With(kinds ...string) *Cfg {
	c := *g
	c.Leaves, c.Wraps, c.Multi = append([]string(nil), g.Leaves...), append([]string(nil), g.Wraps...), append([]string(nil), g.Multi...)
	for _, k := range kinds {
		switch {
		case in(k, LeafKinds) || in(k, ExtraLeafKinds):
			c.Leaves = append(c.Leaves, k)
		case in(k, MultiKinds) || in(k, ExtraMultiKinds):
			c.Multi = append(c.Multi, k)
		case in(k, WrapKinds) || in(k, ExtraWrapKinds):
			c.Wraps = append(c.Wraps, k)
		default:
			panic("With: unknown kind " + k)
		}
	}
	return &c
}

// Draw draws a tree with at most `budget` spec nodes (leaves forced
// once the budget is exhausted).
func (g *Cfg) Draw(t *rapid.T, budget int) *Spec {
	if g.XRate > 0 && budget >= 3 && rapid.IntRange(0, g.XRate-1).Draw(t, "structural-extreme") == g.XRate-1 {
		return g.Extreme(t, g.XClasses...)
	}
	b := budget
	return g.draw(t, &b, 0)
}

// Draw is the default generator.
func Draw(t *rapid.T, str StrGen, budget int) *Spec { return Default(str).Draw(t, budget) }

func (g *Cfg) draw(t *rapid.T, budget *int, depth int) *Spec {
	*budget--
	if *budget <= 0 || depth > g.MaxDepth {
		return g.DrawLeaf(t)
	}
	// With budget left, leaves are rare (and excluded at the root), so
	// that the size distribution is not dominated by tiny trees.
	wl := g.WLeaf
	if *budget > 3 {
		wl = 1
	}
	if depth == 0 {
		wl = 0
	}
	c := rapid.IntRange(0, wl+g.WWrap+g.WMulti-1).Draw(t, "shape") + (g.WLeaf - wl)
	switch {
	case c < g.WLeaf:
		return g.DrawLeaf(t)
	case c < g.WLeaf+g.WWrap || len(g.Multi) == 0:
		return g.drawWrap(t, budget, depth)
	default:
		return g.drawMulti(t, budget, depth)
	}
}

// DrawLeaf draws a leaf spec.
func (g *Cfg) DrawLeaf(t *rapid.T) *Spec {
	k := rapid.SampledFrom(g.Leaves).Draw(t, "leaf")
	return g.LeafOf(t, k)
}

// LeafOf draws the parameters of a leaf of the given kind.
func (g *Cfg) LeafOf(t *rapid.T, k string) *Spec {
	str := g.Str
	s := &Spec{K: k}
	switch k {
	case "newf0", "assertf0":
		// a printf-style constructor called with a format only (no arguments)
		s.S = []string{str(t, "lit")}
	case "uleafas":
		// I[0] = 1: this value's As method declines (it answers by value)
		s.S = []string{str(t, "msg")}
		s.I = []int{rapid.SampledFrom([]int{0, 0, 1}).Draw(t, "declines")}
	case "new", "domnew", "goerr", "pkgnew", "uleafptr", "uleafval", "uleafnc", "uleaffmtold", "rleaf", "uoptleaf", "unknownnet":
		s.S = []string{str(t, "msg")}
	case "stleaf":
		s.S = []string{str(t, "msg")}
		s.I = []int{rapid.IntRange(1, 16).Draw(t, "code")}
	case "unimplf":
		// S[0..2] format parts, S[3] url, S[4] detail
		s.S = []string{str(t, "lit"), str(t, "uarg"), str(t, "sarg"), str(t, "url"), str(t, "detail")}
		if rapid.IntRange(0, 3).Draw(t, "nourl") == 0 {
			s.S[3] = ""
		}
	case "newf", "assertf":
		// S[0] safe literal, S[1] unsafe arg, S[2] safe arg
		s.S = []string{str(t, "lit"), str(t, "uarg"), str(t, "sarg")}
	case "unimpl":
		s.S = []string{str(t, "msg"), str(t, "url"), str(t, "detail")}
		if rapid.IntRange(0, 3).Draw(t, "nourl") == 0 {
			s.S[1] = ""
		}
	case "sentinel":
		s.S = []string{rapid.SampledFrom(SentinelNames).Draw(t, "sentinel")}
	case "grpcstatus":
		s.S = []string{str(t, "msg")}
		s.I = []int{rapid.IntRange(1, 16).Draw(t, "code")}
	case "gogostatus":
		// I[1] = 1: the status carries a detail message (S[1])
		s.S = []string{str(t, "msg"), str(t, "detail")}
		s.I = []int{rapid.IntRange(1, 16).Draw(t, "code"), rapid.IntRange(0, 1).Draw(t, "withdetail")}
	case "addrerr":
		s.S = []string{str(t, "err"), str(t, "addr")}
	case "dnsleaf":
		s.S = []string{str(t, "err"), str(t, "name")}
	case "uleafformatter":
		s.S = []string{str(t, "msg"), str(t, "det")}
	case "uleafsafefmt":
		s.S = []string{str(t, "safe"), str(t, "msg")}
	case "risleaf":
		s.S = []string{str(t, "msg"), rapid.SampledFrom(SentinelNames).Draw(t, "target")}
	case "ucodedanon":
		// a value of an unnamed struct type that embeds an error
		s.S = []string{str(t, "msg")}
		s.I = []int{rapid.IntRange(0, 9).Draw(t, "code")}
	case "prototest", "uzeroa", "uzerob":
	default:
		panic("LeafOf: unknown kind " + k)
	}
	return s
}

func (g *Cfg) drawWrap(t *rapid.T, budget *int, depth int) *Spec {
	k := rapid.SampledFrom(g.Wraps).Draw(t, "wrap")
	s := g.WrapOf(t, k, nil)
	s.C = g.draw(t, budget, depth+1)
	for i := range s.X {
		if k == "mark" && rapid.IntRange(0, 2).Draw(t, "bareref") == 0 {
			// the common use of Mark: the reference is a bare (package-level) error
			if lk := rapid.SampledFrom(emptyAsMarkRef).Draw(t, "refkind"); in(lk, g.Leaves) {
				s.X[i] = g.LeafOf(t, lk)
				continue
			}
		}
		s.X[i] = g.draw(t, budget, depth+1)
	}
	return s
}

// WrapOf draws the parameters of a wrapper of kind k around c. Kinds
// that need an extra sub-error (mark, secondary, combine) get a nil
// placeholder in X which the caller fills.
func (g *Cfg) WrapOf(t *rapid.T, k string, c *Spec) *Spec {
	str := g.Str
	s := &Spec{K: k, C: c}
	switch k {
	case "wrap", "withmsg", "hint", "detail", "handledmsg", "goerrorf", "goerrorfsuffix", "goerrorfecho", "pkgmsgecho", "wrapecho",
		"pkgmsg", "pkgwrap", "uwrapnofmt", "uwrapcause", "uwrapsuffix", "uwrapoverride", "uopt", "uwrapfmtold", "rwrapfull", "uwrapasself":
		s.S = []string{str(t, "msg")}
	case "newfwerr":
		// Newf with %w and another error-typed argument.
		s.S = []string{str(t, "lit")}
		s.X = []*Spec{nil}
	case "safedetailsnofmt":
		// WithSafeDetails with an empty format and arguments
		s.S = []string{str(t, "uarg"), str(t, "sarg")}
	case "handledmsgf0", "hintf0", "detailf0", "wrapf0", "withmsgf0":
		s.S = []string{str(t, "lit")}
	case "stwrap":
		s.S = []string{str(t, "msg")}
		s.I = []int{rapid.IntRange(1, 16).Draw(t, "code")}
	case "hintf", "detailf":
		s.S = []string{str(t, "lit"), str(t, "uarg"), str(t, "sarg")}
	case "wrapfgosyntax":
		// Wrapf with an error argument printed with %#v.
		s.S = []string{str(t, "lit")}
		s.X = []*Spec{nil}
	case "wrapf", "withmsgf", "safedetails", "assertwrap", "newfw", "newfwsuffix", "handledmsgf", "handledsafemsg":
		s.S = []string{str(t, "lit"), str(t, "uarg"), str(t, "sarg")}
	case "telemetry":
		n := rapid.IntRange(0, 3).Draw(t, "nkeys")
		for i := 0; i < n; i++ {
			s.S = append(s.S, str(t, "key"))
			if rapid.IntRange(0, 7).Draw(t, "emptykey") == 7 {
				s.S[i] = "" // an empty telemetry key is a key like any other
			}
		}
		if n >= 2 && rapid.Bool().Draw(t, "descending") {
			// keys given in descending order (an observer that sorts them in place would show)
			SortStrings(s.S)
			for i, j := 0, len(s.S)-1; i < j; i, j = i+1, j-1 {
				s.S[i], s.S[j] = s.S[j], s.S[i]
			}
		}
	case "domain":
		// I[0]: 0 a named domain, 1 the explicit NoDomain, 2 the
		// literal Domain("") (zeros first: rapid shrinks to a named domain)
		s.S = []string{str(t, "domain")}
		s.I = []int{rapid.SampledFrom([]int{0, 0, 0, 0, 0, 0, 1, 2}).Draw(t, "domainkind")}
	case "handleddomain":
		s.S = []string{str(t, "domain")}
	case "stackn":
		// WithStackDepth leaving exactly I[0] frames of the stack
		s.I = []int{rapid.IntRange(1, 3).Draw(t, "frames")}
	case "ukeymarker":
		// a type-mark extension is an identifier-like string: one line
		s.S = []string{strings.ReplaceAll(strings.ReplaceAll(str(t, "marker"), "\n", "_"), "\r", "_")}
	case "handleddomainmsg":
		s.S = []string{str(t, "domain"), str(t, "msg")}
	case "issuelink":
		s.S = []string{str(t, "url"), str(t, "detail")}
		if rapid.IntRange(0, 3).Draw(t, "nourl") == 0 {
			s.S[0] = ""
		}
	case "tags":
		// (no tag at all: a context whose only tag was removed again - the
		// layer exists, its tag buffer is empty)
		n := rapid.SampledFrom([]int{1, 1, 1, 2, 2, 2, 0}).Draw(t, "ntags")
		for i := 0; i < n; i++ {
			key := str(t, "key")
			if rapid.IntRange(0, 3).Draw(t, "shortkey") == 0 {
				// logtags prints one-letter keys differently.
				key = string(rune('a' + i))
			}
			s.S = append(s.S, key, str(t, "val"))
			// value kind: 0 string, 1 no value, 2 redact.SafeString, 3 integer (its decimal form)
			s.I = append(s.I, rapid.SampledFrom([]int{0, 0, 0, 1, 2, 3}).Draw(t, "valuekind"))
		}
	case "mark", "secondary", "combine":
		s.X = []*Spec{nil}
	case "wrapferr", "wrapferrprec", "assertwraperr":
		// Wrapf / NewAssertionErrorWithWrappedErrf with an error-typed
		// argument (captured as secondary error).
		s.S = []string{str(t, "lit")}
		s.X = []*Spec{nil}
	case "httpcode":
		// (0, and values up to the range of the wire field)
		s.I = []int{rapid.OneOf(rapid.IntRange(100, 599), rapid.IntRange(100, 599), rapid.IntRange(100, 599), rapid.Just(0), rapid.SampledFrom([]int{1, 65536, 1 << 31, 3000000000, 1<<32 - 1})).Draw(t, "code")}
	case "grpccode":
		// codes.OK (0) is a code like any other for the annotation itself
		// (C20 excludes it: a gRPC status with code OK is "no error")
		// (also codes beyond the ones gRPC defines: the annotation takes any)
		s.I = []int{rapid.OneOf(rapid.IntRange(0, 16), rapid.IntRange(0, 16), rapid.IntRange(0, 16), rapid.IntRange(0, 16), rapid.SampledFrom([]int{17, 18, 100, 65536, 1<<31 - 1})).Draw(t, "code")}
	case "ospath":
		s.S = []string{rapid.SampledFrom([]string{"open", "read", "stat"}).Draw(t, "op"), str(t, "path")}
		if rapid.IntRange(0, 7).Draw(t, "emptypath") == 7 {
			s.S[1] = "" // what os.Open("") reports
		}
	case "oslink":
		s.S = []string{rapid.SampledFrom([]string{"link", "rename"}).Draw(t, "op"), str(t, "old"), str(t, "new")}
		if e := rapid.IntRange(0, 15).Draw(t, "emptypath"); e >= 14 {
			s.S[e-13] = ""
		}
	case "ossyscall":
		s.S = []string{rapid.SampledFrom([]string{"open", "connect"}).Draw(t, "syscall")}
	case "netop":
		// I[0] = 1: the address is the Source (local) address, no Addr
		s.S = []string{rapid.SampledFrom([]string{"dial", "read"}).Draw(t, "op"), rapid.SampledFrom([]string{"tcp", "udp", ""}).Draw(t, "net"), str(t, "addr")}
		s.I = []int{rapid.SampledFrom([]int{0, 0, 0, 1}).Draw(t, "sourceonly")}
	case "netopsrc":
		s.S = []string{rapid.SampledFrom([]string{"dial", "write"}).Draw(t, "op"), rapid.SampledFrom([]string{"tcp", "udp", ""}).Draw(t, "net"), str(t, "source"), str(t, "addr")}
	case "dnswrap":
		s.S = []string{str(t, "err"), str(t, "name")}
	case "uwrapformatter":
		s.S = []string{str(t, "msg"), str(t, "det")}
	case "uhinter":
		s.S = []string{str(t, "hint"), str(t, "detail")}
	case "uwrapsafefmt", "uwrapbothfmt", "uwrapstackdetails":
		s.S = []string{str(t, "safe"), str(t, "msg")}
	case "stack", "stackdeep", "assertion", "handled", "domhandled", "handleassert", "pkgstack", "uwraptransparent":
	default:
		panic("WrapOf: unknown kind " + k)
	}
	return s
}

func (g *Cfg) drawMulti(t *rapid.T, budget *int, depth int) *Spec {
	k := rapid.SampledFrom(g.Multi).Draw(t, "multi")
	s := g.MultiOf(t, k)
	for i := range s.X {
		s.X[i] = g.draw(t, budget, depth+1)
	}
	return s
}

// MultiOf draws the parameters of a multi-cause node; X holds nil
// placeholders for the caller to fill.
func (g *Cfg) MultiOf(t *rapid.T, k string) *Spec {
	s := &Spec{K: k}
	n := rapid.IntRange(1, 3).Draw(t, "branches")
	if k == "goerrorfmulti" {
		n = 2
	}
	s.X = make([]*Spec, n)
	switch k {
	case "goerrorfmulti", "umulti", "rmulti", "umulticause", "umulticauser", "umultias":
		s.S = []string{g.Str(t, "msg")}
	case "umultiholes":
		// bit i of I[0]: a nil entry precedes cause i; bit n: trailing nil
		s.S = []string{g.Str(t, "msg")}
		s.I = []int{rapid.IntRange(1, 1<<(n+1)-1).Draw(t, "holes")}
	case "umultiis":
		s.S = []string{g.Str(t, "msg"), rapid.SampledFrom(SentinelNames).Draw(t, "target")}
	case "join", "subjoin", "gojoin":
		// bit i: a nil argument precedes branch i; bit n: trailing nil.
		mask := 0
		if rapid.IntRange(0, 2).Draw(t, "nils") == 0 {
			mask = rapid.IntRange(0, 1<<(n+1)-1).Draw(t, "nilmask")
		}
		s.I = []int{mask}
	default:
		panic("MultiOf: unknown kind " + k)
	}
	return s
}

// Boost returns a copy of the configuration in which the given kinds
// are `factor` times as likely as the others within their class
// (construction of the feature a property is about, instead of
// filtering for it).
func (g *Cfg) Boost(factor int, kinds ...string) *Cfg {
	c := *g
	f := func(l []string) []string {
		out := append([]string(nil), l...)
		for _, k := range l {
			if in(k, kinds) {
				for i := 1; i < factor; i++ {
					out = append(out, k)
				}
			}
		}
		return out
	}
	c.Leaves, c.Wraps, c.Multi = f(g.Leaves), f(g.Wraps), f(g.Multi)
	return &c
}
