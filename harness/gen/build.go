package gen

import (
	"context"
	goErr "errors"
	"fmt"
	"net"
	"os"
	"strings"

	"github.com/cockroachdb/errors"
	"github.com/cockroachdb/errors/barriers"
	"github.com/cockroachdb/errors/domains"
	"github.com/cockroachdb/errors/errbase"
	"github.com/cockroachdb/errors/errorspb"
	"github.com/cockroachdb/errors/extgrpc"
	"github.com/cockroachdb/errors/exthttp"
	libstatus "github.com/cockroachdb/errors/grpc/status"
	"github.com/cockroachdb/errors/join"
	"github.com/cockroachdb/logtags"
	"github.com/cockroachdb/redact"
	gogostatus "github.com/gogo/status"
	pkgErr "github.com/pkg/errors"
	"google.golang.org/grpc/codes"
	grpcstatus "google.golang.org/grpc/status"
)

func safeStr(s string) redact.SafeString { return redact.SafeString(s) }

type unixAddr string

func (a unixAddr) Network() string { return "unix" }
func (a unixAddr) String() string  { return string(a) }

var _ net.Addr = unixAddr("")

// Prebuilt is the object that the pseudo-kind "prebuilt" stands for
// (used to build a wrapper around an existing object).
var Prebuilt error

// Built is a built error together with the object built for every
// spec node.
type Built struct {
	Root error
	Of   map[*Spec]error
}

// Build constructs the real error described by s, through the
// library's public API only.
func Build(s *Spec) error { return BuildAll(s).Root }

// BuildAll is like Build and also returns the object of every node.
func BuildAll(s *Spec) *Built {
	b := &Built{Of: map[*Spec]error{}}
	b.Root = b.build(s)
	return b
}

// Fmt3 is the format string used by all printf-like kinds: a literal
// (with % escaped), an unsafe argument, a safe argument.
func Fmt3(lit string) string { return "lit " + esc(lit) + " u=%s s=%s" }

func esc(s string) string { return strings.ReplaceAll(s, "%", "%%") }

// JoinArgs interleaves nil arguments according to the mask (bit i: a
// nil precedes branch i; bit n: trailing nil).
func JoinArgs(mask int, xs []error) []error { return joinArgs(mask, xs) }

func joinArgs(mask int, xs []error) []error {
	var out []error
	for i, x := range xs {
		if mask&(1<<i) != 0 {
			out = append(out, nil)
		}
		out = append(out, x)
	}
	if mask&(1<<len(xs)) != 0 {
		out = append(out, nil)
	}
	return out
}

func (b *Built) build(s *Spec) (res error) {
	defer func() { b.Of[s] = res }()
	var c error
	if s.C != nil {
		c = b.build(s.C)
	}
	var xs []error
	for _, x := range s.X {
		xs = append(xs, b.build(x))
	}
	S := func(i int) string { return s.S[i] }
	switch s.K {
	case "prebuilt":
		return Prebuilt
	// leaves
	case "new":
		return errors.New(S(0))
	case "newf":
		return errors.Newf(Fmt3(S(0)), S(1), errors.Safe(S(2)))
	case "assertf":
		return errors.AssertionFailedf(Fmt3(S(0)), S(1), errors.Safe(S(2)))
	case "newf0":
		return errors.Newf("lit " + esc(S(0)))
	case "assertf0":
		return errors.AssertionFailedf("lit " + esc(S(0)))
	case "unimpl":
		return errors.UnimplementedError(errors.IssueLink{IssueURL: S(1), Detail: S(2)}, S(0))
	case "unimplf":
		return errors.UnimplementedErrorf(errors.IssueLink{IssueURL: S(3), Detail: S(4)}, Fmt3(S(0)), S(1), errors.Safe(S(2)))
	case "stleaf":
		return libstatus.Error(codes.Code(s.I[0]), S(0))
	case "domnew":
		return domains.New(S(0))
	case "goerr":
		return goErr.New(S(0))
	case "sentinel":
		return Sentinels[S(0)]
	case "pkgnew":
		return pkgErr.New(S(0))
	case "grpcstatus":
		return grpcstatus.Error(codes.Code(s.I[0]), S(0))
	case "gogostatus":
		if len(s.I) > 1 && s.I[1] == 1 {
			st, err := gogostatus.New(codes.Code(s.I[0]), S(0)).WithDetails(&errorspb.StringPayload{Msg: S(1)})
			if err != nil {
				panic(err)
			}
			return st.Err()
		}
		return gogostatus.Error(codes.Code(s.I[0]), S(0))
	case "addrerr":
		return &net.AddrError{Err: S(0), Addr: S(1)}
	case "dnsleaf":
		return &net.DNSError{Err: S(0), Name: S(1)}
	case "unknownnet":
		return net.UnknownNetworkError(S(0))
	case "uleafptr":
		return &ULeafPtr{S(0)}
	case "uleafval":
		return ULeafVal{S(0)}
	case "uleafnc":
		return ULeafNC{S(0), []int{1}}
	case "uleaffmtold":
		return &ULeafFmtOld{S(0)}
	case "uleafformatter":
		return &ULeafFormatter{S(0), S(1)}
	case "uleafsafefmt":
		return &ULeafSafeFmt{S(0), S(1)}
	case "rleaf":
		return &RLeaf{S(0)}
	case "risleaf":
		return &RLeafIs{S(0), S(1)}
	case "prototest":
		return &errorspb.TestError{}
	case "uzeroa":
		return &ZeroA{}
	case "uzerob":
		return &ZeroB{}
	case "uoptleaf":
		return &UOpt{S(0), nil}
	case "uleafas":
		if len(s.I) > 0 && s.I[0] == 1 {
			return &ULeafAs{S(0), nil}
		}
		return &ULeafAs{S(0), &ULeafPtr{"as:" + S(0)}}

	// wrappers
	case "wrap":
		return errors.Wrap(c, S(0))
	case "wrapf":
		return errors.Wrapf(c, Fmt3(S(0)), S(1), errors.Safe(S(2)))
	case "withmsg":
		return errors.WithMessage(c, S(0))
	case "wrapf0":
		return errors.Wrapf(c, "lit "+esc(S(0)))
	case "withmsgf0":
		return errors.WithMessagef(c, "lit "+esc(S(0)))
	case "safedetailsnofmt":
		return errors.WithSafeDetails(c, "", S(0), errors.Safe(S(1)))
	case "withmsgf":
		return errors.WithMessagef(c, Fmt3(S(0)), S(1), errors.Safe(S(2)))
	case "stack":
		return errors.WithStack(c)
	case "stackdeep":
		// a depth beyond the top of the stack: no frame is captured
		return errors.WithStackDepth(c, 1000)
	case "hintf0":
		return errors.WithHintf(c, "lit "+esc(S(0)))
	case "detailf0":
		return errors.WithDetailf(c, "lit "+esc(S(0)))
	case "hint":
		return errors.WithHint(c, S(0))
	case "detail":
		return errors.WithDetail(c, S(0))
	case "hintf":
		return errors.WithHintf(c, Fmt3(S(0)), S(1), errors.Safe(S(2)))
	case "detailf":
		return errors.WithDetailf(c, Fmt3(S(0)), S(1), errors.Safe(S(2)))
	case "stwrap":
		return libstatus.WrapErr(codes.Code(s.I[0]), S(0), c)
	case "safedetails":
		return errors.WithSafeDetails(c, Fmt3(S(0)), S(1), errors.Safe(S(2)))
	case "telemetry":
		return errors.WithTelemetry(c, s.S...)
	case "domain":
		return errors.WithDomain(c, DomainOf(s))
	case "stackn":
		return stackWithFrames(c, s.I[0])
	case "issuelink":
		return errors.WithIssueLink(c, errors.IssueLink{IssueURL: S(0), Detail: S(1)})
	case "tags":
		ctx := context.Background()
		if len(s.S) == 0 {
			ctx = logtags.RemoveTag(logtags.AddTag(ctx, "k", nil), "k")
		}
		for i := 0; i*2 < len(s.S); i++ {
			switch s.I[i] {
			case 1:
				ctx = logtags.AddTag(ctx, S(2*i), nil)
			case 2:
				ctx = logtags.AddTag(ctx, S(2*i), redact.SafeString(S(2*i+1)))
			case 3:
				ctx = logtags.AddTag(ctx, S(2*i), len(S(2*i+1)))
			default:
				ctx = logtags.AddTag(ctx, S(2*i), S(2*i+1))
			}
		}
		return errors.WithContextTags(c, ctx)
	case "assertion":
		return errors.WithAssertionFailure(c)
	case "mark":
		return errors.Mark(c, xs[0])
	case "secondary":
		return errors.WithSecondaryError(c, xs[0])
	case "combine":
		return errors.CombineErrors(c, xs[0])
	case "wrapferr":
		return errors.Wrapf(c, "lit "+esc(S(0))+" e=%v", xs[0])
	case "wrapferrprec":
		// the error-typed argument printed with a precision
		return errors.Wrapf(c, "lit "+esc(S(0))+" e=%.12v", xs[0])
	case "wrapfgosyntax":
		return errors.Wrapf(c, "lit "+esc(S(0))+" e=%#v", xs[0])
	case "handled":
		return errors.Handled(c)
	case "handledmsg":
		return errors.HandledWithMessage(c, S(0))
	case "handledmsgf":
		return barriers.HandledWithMessagef(c, Fmt3(S(0)), S(1), errors.Safe(S(2)))
	case "handledmsgf0":
		return barriers.HandledWithMessagef(c, "lit "+esc(S(0)))
	case "handledsafemsg":
		return barriers.HandledWithSafeMessage(c, redact.Sprintf(Fmt3(S(0)), S(1), errors.Safe(S(2))))
	case "handleddomain":
		return errors.HandledInDomain(c, errors.NamedDomain(S(0)))
	case "handleddomainmsg":
		return errors.HandledInDomainWithMessage(c, errors.NamedDomain(S(0)), S(1))
	case "domhandled":
		return domains.Handled(c)
	case "handleassert":
		return errors.HandleAsAssertionFailure(c)
	case "assertwrap":
		return errors.NewAssertionErrorWithWrappedErrf(c, Fmt3(S(0)), S(1), errors.Safe(S(2)))
	case "assertwraperr":
		return errors.NewAssertionErrorWithWrappedErrf(c, "lit "+esc(S(0))+" e=%v", xs[0])
	case "newfw":
		return errors.Newf(Fmt3(S(0))+": %w", S(1), errors.Safe(S(2)), c)
	case "newfwsuffix":
		return errors.Newf("%w :: "+Fmt3(S(0)), c, S(1), errors.Safe(S(2)))
	case "httpcode":
		return exthttp.WrapWithHTTPCode(c, s.I[0])
	case "grpccode":
		return extgrpc.WrapWithGrpcCode(c, codes.Code(s.I[0]))
	case "goerrorf":
		return fmt.Errorf("%s: %w", S(0), c)
	case "goerrorfsuffix":
		return fmt.Errorf("%w - %s", c, S(0))
	// wrappers whose own message ends with a copy of the cause's text
	// ("retry failed: <cause>" in front of the cause)
	case "goerrorfecho":
		return fmt.Errorf("%s: %s: %w", S(0), c.Error(), c)
	case "pkgmsgecho":
		return pkgErr.WithMessage(c, S(0)+": "+c.Error())
	case "wrapecho":
		return errors.Wrap(c, S(0)+": "+c.Error())
	case "ospath":
		return &os.PathError{Op: S(0), Path: S(1), Err: c}
	case "oslink":
		return &os.LinkError{Op: S(0), Old: S(1), New: S(2), Err: c}
	case "ossyscall":
		return os.NewSyscallError(S(0), c)
	case "netop":
		if len(s.I) > 0 && s.I[0] == 1 {
			return &net.OpError{Op: S(0), Net: S(1), Source: unixAddr(S(2)), Err: c}
		}
		return &net.OpError{Op: S(0), Net: S(1), Addr: unixAddr(S(2)), Err: c}
	case "netopsrc":
		return &net.OpError{Op: S(0), Net: S(1), Source: unixAddr(S(2)), Addr: unixAddr(S(3)), Err: c}
	case "dnswrap":
		return &net.DNSError{Err: S(0), Name: S(1), UnwrapErr: c}
	case "pkgmsg":
		return pkgErr.WithMessage(c, S(0))
	case "pkgstack":
		return pkgErr.WithStack(c)
	case "pkgwrap":
		return pkgErr.Wrap(c, S(0))
	case "uwrapnofmt":
		return &UWrapNoFmt{S(0), c}
	case "uwrapcause":
		return &UWrapCauseOnly{S(0), c}
	case "uwraptransparent":
		return UWrapTransparent{c}
	case "uwrapsuffix":
		return &UWrapSuffix{S(0), c}
	case "uwrapoverride":
		return &UWrapOverride{S(0), c}
	case "uwrapformatter":
		return &UWrapFormatter{S(0), S(1), c}
	case "uwrapsafefmt":
		return &UWrapSafeFmt{S(0), S(1), c}
	case "uwrapbothfmt":
		return &UWrapBothFmt{S(0), S(1), c}
	case "uwrapstackdetails":
		st := errors.WithStack(c).(interface{ StackTrace() errbase.StackTrace }).StackTrace()
		return &UWrapStackDetails{S(1), S(0), c, st}
	case "ucodedanon":
		return CodedAnon(goErr.New(S(0)), s.I[0])
	case "uopt":
		return &UOpt{S(0), c}
	case "uwrapfmtold":
		return &UWrapFmtOld{S(0), c}
	case "rwrapfull":
		return &RWrapFull{S(0), c}
	case "uwrapasself":
		return &UWrapAsSelf{S(0), c, &UWrapAsSelf{"from As method", c, nil}}
	case "newfwerr":
		return errors.Newf("lit "+esc(S(0))+" e=%v: %w", xs[0], c)
	case "ukeymarker":
		return &UWrapKeyMarker{S(0), c}
	case "uhinter":
		return &UWrapHinter{S(0), S(1), c}

	// multi
	case "join":
		return errors.Join(joinArgs(s.I[0], xs)...)
	case "subjoin":
		return join.Join(joinArgs(s.I[0], xs)...)
	case "gojoin":
		return goErr.Join(joinArgs(s.I[0], xs)...)
	case "goerrorfmulti":
		return fmt.Errorf("%s: %w, %w", S(0), xs[0], xs[1])
	case "umulti":
		return &UMulti{S(0), xs}
	case "rmulti":
		return &RMulti{S(0), xs}
	case "umulticause":
		return &UMultiCause{S(0), xs}
	case "umultias":
		return &UMultiAs{S(0), xs, &ULeafPtr{"as:" + S(0)}}
	case "umulticauser":
		return &UMultiCauser{S(0), xs}
	case "umultiis":
		return &UMultiIs{S(0), xs, S(1)}
	case "umultiholes":
		return &UMultiHoles{S(0), joinArgs(s.I[0], xs)}
	}
	panic("unknown kind " + s.K)
}

// DomainOf is the domain given to WithDomain by a "domain" node.
func DomainOf(s *Spec) errors.Domain {
	if len(s.I) > 0 {
		switch s.I[0] {
		case 1:
			return errors.NoDomain
		case 2:
			return errors.Domain("")
		}
	}
	return errors.NamedDomain(s.S[0])
}

// stackWithFrames annotates c with a stack trace of exactly n frames
// (the outermost n frames of the current goroutine): the depth is
// found by trial.
func stackWithFrames(c error, n int) error {
	for d := 0; d < 200; d++ {
		e := errors.WithStackDepth(c, d)
		st, ok := e.(interface{ StackTrace() errbase.StackTrace })
		if !ok {
			panic("stackWithFrames: WithStackDepth does not return a stack trace provider")
		}
		if len(st.StackTrace()) == n {
			return e
		}
	}
	panic("stackWithFrames: no depth leaves the wanted number of frames")
}
