package ref

import (
	"fmt"
	"regexp"
	"strings"

	"github.com/cockroachdb/errors/errbase"
)

// DNode is one layer in display order.
type DNode struct {
	Err        error
	Depth      int
	UnderMulti bool // has a multi-cause ancestor
}

// DisplayOrder lists the layers in the order %+v numbers them: a
// node, then its sub-trees, last branch first.
func DisplayOrder(e error) []DNode {
	var out []DNode
	var rec func(e error, depth int, under bool)
	rec = func(e error, depth int, under bool) {
		out = append(out, DNode{e, depth, under})
		if c := errbase.UnwrapOnce(e); c != nil {
			rec(c, depth+1, under)
			return
		}
		cs := errbase.UnwrapMulti(e)
		for i := len(cs) - 1; i >= 0; i-- {
			rec(cs[i], depth+1, true)
		}
	}
	rec(e, 0, false)
	return out
}

// Entry is one numbered entry of a %+v rendering.
type Entry struct {
	Indent string
	Num    int
	Text   string // all lines of the entry, joined by \n
}

// Verbose is a parsed %+v rendering.
type Verbose struct {
	Header  string
	Entries []Entry
	Types   string // the "Error types:" line
}

var entryRe = regexp.MustCompile(`^(\s*)(└─ )?(Wraps: )?\((\d+)\)`)

// ParseVerbose parses the plain fmt %+v rendering of an error. It
// skips exactly the first line as header (the header is the
// concatenation of the first lines of the layers' messages, hence one
// line) and treats every later line that is not "(1)...",
// "[indent][└─ ]Wraps: (n)..." or "Error types:" as a continuation of
// the current entry (the library prefixes continuation lines of
// messages with "  | ").
func ParseVerbose(out string) (*Verbose, error) {
	lines := strings.Split(out, "\n")
	if len(lines) < 3 {
		return nil, fmt.Errorf("fewer than 3 lines")
	}
	v := &Verbose{Header: lines[0]}
	if !strings.HasPrefix(lines[1], "(1)") {
		return nil, fmt.Errorf("second line does not start with (1)")
	}
	last := lines[len(lines)-1]
	if !strings.HasPrefix(last, "Error types: ") {
		return nil, fmt.Errorf("last line is not the Error types line")
	}
	v.Types = last
	for i, l := range lines[1 : len(lines)-1] {
		m := entryRe.FindStringSubmatch(l)
		isEntry := m != nil && ((i == 0 && m[1] == "" && m[2] == "" && m[3] == "") || m[3] != "")
		if isEntry {
			n := 0
			fmt.Sscanf(m[4], "%d", &n)
			v.Entries = append(v.Entries, Entry{Indent: m[1] + m[2], Num: n, Text: l})
		} else {
			if len(v.Entries) == 0 {
				return nil, fmt.Errorf("text before the first entry")
			}
			e := &v.Entries[len(v.Entries)-1]
			e.Text += "\n" + l
		}
	}
	return v, nil
}
