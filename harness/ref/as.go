// Package ref holds reference implementations used as differential
// oracles: the stdlib As algorithm extended with Cause(), a %+v
// parser, value comparison helpers.
package ref

import (
	"fmt"
	"io/fs"
	"net"
	"os"
	"reflect"
	"syscall"

	"github.com/cockroachdb/errors/errbase"

	"verif/gen"
)

type Timeouter interface{ Timeout() bool }

// AsTargets: pointer, value, non-comparable value and interface targets.
func AsTargets() []func() interface{} {
	return []func() interface{}{
		func() interface{} { return new(*gen.ULeafPtr) },
		func() interface{} { return new(gen.ULeafVal) },
		func() interface{} { return new(gen.ULeafNC) },
		func() interface{} { return new(*gen.UOpt) },
		func() interface{} { return new(*gen.UWrapNoFmt) },
		func() interface{} { return new(*fs.PathError) },
		func() interface{} { return new(*os.LinkError) },
		func() interface{} { return new(*os.SyscallError) },
		func() interface{} { return new(*net.OpError) },
		func() interface{} { return new(*net.DNSError) },
		func() interface{} { return new(syscall.Errno) },
		func() interface{} { return new(Timeouter) },
		func() interface{} { return new(net.Error) },
		func() interface{} { return new(fmt.Formatter) },
		func() interface{} { return new(error) },
		func() interface{} { return new(interface{ Unwrap() []error }) },
		func() interface{} { return new(gen.UWrapTransparent) },
		func() interface{} { return new(*gen.RLeafIs) },
		func() interface{} { return new(*gen.UWrapCauseOnly) },
		func() interface{} { return new(*gen.UWrapAsSelf) },
		func() interface{} { return new(*gen.ULeafAs) },
		func() interface{} { return new(gen.Coded) },
		func() interface{} { return new(*gen.ZeroA) },
		func() interface{} { return new(interface{ ErrorHint() string }) },
	}
}

// As is the standard library's algorithm with the one extension the
// library documents: a layer is unwrapped through Cause() as well as
// Unwrap(). First match in depth-first, branch-order wins.
func As(err error, target interface{}) bool {
	val := reflect.ValueOf(target)
	targetType := val.Type().Elem()
	var rec func(e error) bool
	rec = func(e error) bool {
		for e != nil {
			if reflect.TypeOf(e).AssignableTo(targetType) {
				val.Elem().Set(reflect.ValueOf(e))
				return true
			}
			if x, ok := e.(interface{ As(interface{}) bool }); ok && x.As(target) {
				return true
			}
			// Branches first (depth-first, in order), as the standard
			// library does; then the single cause, if the node also has
			// one (a multi-error type with a Cause() method).
			for _, b := range errbase.UnwrapMulti(e) {
				if b != nil && rec(b) {
					return true
				}
			}
			e = errbase.UnwrapOnce(e)
		}
		return false
	}
	if err == nil {
		return false
	}
	return rec(err)
}

// SameVal compares two values: == when defined, DeepEqual otherwise.
func SameVal(a, b interface{}) bool {
	ta, tb := reflect.TypeOf(a), reflect.TypeOf(b)
	if ta != tb {
		return false
	}
	if ta == nil {
		return true
	}
	eq, ok := func() (eq, ok bool) {
		defer func() { recover() }()
		if ta.Comparable() {
			return a == b, true
		}
		return false, false
	}()
	if ok {
		return eq
	}
	return reflect.DeepEqual(a, b)
}

// Elem returns the value a target pointer points to.
func Elem(target interface{}) interface{} { return reflect.ValueOf(target).Elem().Interface() }
