package scan

import (
	"fmt"
	"testing"
)

func TestList(t *testing.T) {
	fs, err := Exported(LibraryDirs...)
	if err != nil {
		t.Fatal(err)
	}
	for _, f := range fs {
		if f.FirstErr >= 0 && len(f.Results) == 1 && f.Results[0] == "error" {
			fmt.Println("WRAP", f, f.Params)
		}
	}
	for _, f := range fs {
		if f.FirstErr < 0 && len(f.Results) == 1 && f.Results[0] == "error" {
			fmt.Println("LEAF", f, f.Params)
		}
	}
}
