// Package scan lists exported functions of the repository under test
// with go/parser, so that hand-written tables (nil grid, stack
// attribution grid) can be checked for completeness.
package scan

import (
	"go/ast"
	"go/parser"
	"go/token"
	"os"
	"path/filepath"
	"sort"
	"strings"
)

// Func describes one exported top-level function.
type Func struct {
	Pkg      string // directory relative to the repository root ("" = root package)
	Name     string
	Params   []string // parameter types, as source text
	Results  []string
	FirstErr int // index of the first parameter of type error / ...error, -1 if none
}

func (f Func) String() string {
	p := f.Pkg
	if p == "" {
		p = "errors"
	}
	return p + "." + f.Name
}

func typeStr(e ast.Expr) string {
	switch t := e.(type) {
	case *ast.Ident:
		return t.Name
	case *ast.Ellipsis:
		return "..." + typeStr(t.Elt)
	case *ast.SelectorExpr:
		return typeStr(t.X) + "." + t.Sel.Name
	case *ast.StarExpr:
		return "*" + typeStr(t.X)
	case *ast.ArrayType:
		return "[]" + typeStr(t.Elt)
	case *ast.InterfaceType:
		return "interface{}"
	case *ast.FuncType:
		return "func"
	case *ast.MapType:
		return "map"
	}
	return "?"
}

// Repo returns the root of the repository under test.
func Repo() string {
	if r := os.Getenv("VERIF_REPO"); r != "" {
		return r
	}
	return "/repo"
}

// Exported lists the exported functions of the given package
// directories (non-test files, all build tags).
func Exported(dirs ...string) ([]Func, error) {
	var out []Func
	for _, d := range dirs {
		fset := token.NewFileSet()
		pkgs, err := parser.ParseDir(fset, filepath.Join(Repo(), d), func(fi os.FileInfo) bool {
			return !strings.HasSuffix(fi.Name(), "_test.go") && !strings.HasPrefix(fi.Name(), "verif_")
		}, 0)
		if err != nil {
			return nil, err
		}
		for _, p := range pkgs {
			for _, f := range p.Files {
				for _, decl := range f.Decls {
					fd, ok := decl.(*ast.FuncDecl)
					if !ok || fd.Recv != nil || !fd.Name.IsExported() {
						continue
					}
					fn := Func{Pkg: d, Name: fd.Name.Name, FirstErr: -1}
					if fd.Type.Params != nil {
						for _, fl := range fd.Type.Params.List {
							n := len(fl.Names)
							if n == 0 {
								n = 1
							}
							for i := 0; i < n; i++ {
								ts := typeStr(fl.Type)
								if (ts == "error" || ts == "...error") && fn.FirstErr < 0 {
									fn.FirstErr = len(fn.Params)
								}
								fn.Params = append(fn.Params, ts)
							}
						}
					}
					if fd.Type.Results != nil {
						for _, fl := range fd.Type.Results.List {
							fn.Results = append(fn.Results, typeStr(fl.Type))
						}
					}
					out = append(out, fn)
				}
			}
		}
	}
	sort.Slice(out, func(i, j int) bool { return out[i].String() < out[j].String() })
	// de-duplicate (same function under different build tags)
	var ded []Func
	for i, f := range out {
		if i > 0 && out[i-1].String() == f.String() {
			continue
		}
		ded = append(ded, f)
	}
	return ded, nil
}

// LibraryDirs are the packages of the public API.
var LibraryDirs = []string{"", "assert", "barriers", "contexttags", "domains", "errbase", "errutil", "extgrpc", "exthttp", "grpc/status",
	"hintdetail", "issuelink", "join", "markers", "oserror", "report", "safedetails", "secondary", "telemetrykeys", "withstack"}
