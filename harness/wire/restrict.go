//go:build verif

package wire

import (
	"github.com/cockroachdb/errors/errbase"
)

// Base is the registry image of the knowing process (taken at init
// time of the test binary, after all packages registered their types).
var base *errbase.VerifRegistry

// SnapshotBase records the current registries as the knowing process.
func SnapshotBase() {
	r := errbase.VerifSnapshotRegistry()
	base = &r
}

// At runs f in a process that does not know the given families
// (true registry restriction through the build-tag hook) and restores
// the knowing process afterwards.
func At(unknown []string, f func()) {
	if base == nil {
		SnapshotBase()
	}
	keys := make([]errbase.TypeKey, len(unknown))
	for i, u := range unknown {
		keys[i] = errbase.TypeKey(u)
	}
	errbase.VerifInstallRegistry(base.Without(keys...))
	defer errbase.VerifInstallRegistry(*base)
	f()
}

// Through passes wire bytes through an unknowing intermediary:
// decode there, re-encode there; returns the re-encoded bytes and
// calls observe (if not nil) on the intermediary's error while still
// "inside" that process.
func Through(b []byte, unknown []string, observe func(mid error)) (out []byte) {
	At(unknown, func() {
		mid := Decode(b)
		if observe != nil {
			observe(mid)
		}
		out = Encode(mid)
	})
	return out
}
