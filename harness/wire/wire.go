// Package wire simulates network transfer: encode -> protobuf bytes
// -> decode, processes that do not know some types (two independent
// simulations), and foreign platforms.
package wire

import (
	"context"
	"strings"

	"github.com/cockroachdb/errors"
	"github.com/cockroachdb/errors/errorspb"
	"github.com/gogo/protobuf/proto"
	"github.com/gogo/protobuf/types"
)

var Ctx = context.Background()

// Marshal serialises an encoded error.
func Marshal(enc *errorspb.EncodedError) []byte {
	b, err := proto.Marshal(enc)
	if err != nil {
		panic(err)
	}
	return b
}

// Unmarshal parses wire bytes into a fresh message.
func Unmarshal(b []byte) errorspb.EncodedError {
	var dec errorspb.EncodedError
	if err := proto.Unmarshal(b, &dec); err != nil {
		panic(err)
	}
	return dec
}

// Encode = EncodeError + Marshal.
func Encode(e error) []byte {
	enc := errors.EncodeError(Ctx, e)
	return Marshal(&enc)
}

// Decode = Unmarshal + DecodeError.
func Decode(b []byte) error {
	return errors.DecodeError(Ctx, Unmarshal(b))
}

// Hop transfers e once; it returns the received error and the bytes.
func Hop(e error) (error, []byte) {
	b := Encode(e)
	return Decode(b), b
}

// Hops transfers e k times.
func Hops(e error, k int) error {
	for i := 0; i < k; i++ {
		e, _ = Hop(e)
	}
	return e
}

const encodedErrorURL = "cockroach.errorspb.EncodedError"

// VisitDetails calls f on the details of every node of enc,
// including the nodes of EncodedError payloads nested in Any fields
// (which are re-marshalled if f modified them).
func VisitDetails(enc *errorspb.EncodedError, f func(d *errorspb.EncodedErrorDetails, isWrapper bool)) {
	fix := func(d *errorspb.EncodedErrorDetails, isWrapper bool) {
		f(d, isWrapper)
		if d.FullDetails != nil && strings.Contains(d.FullDetails.TypeUrl, encodedErrorURL) {
			var inner errorspb.EncodedError
			if err := types.UnmarshalAny(&types.Any{TypeUrl: "type.googleapis.com/" + encodedErrorURL, Value: d.FullDetails.Value}, &inner); err == nil {
				VisitDetails(&inner, f)
				a, err := types.MarshalAny(&inner)
				if err == nil {
					suffix := strings.TrimPrefix(d.FullDetails.TypeUrl[strings.Index(d.FullDetails.TypeUrl, encodedErrorURL):], encodedErrorURL)
					a.TypeUrl += suffix
					d.FullDetails = a
				}
			}
		}
	}
	if w := enc.GetWrapper(); w != nil {
		fix(&w.Details, true)
		VisitDetails(&w.Cause, f)
	} else if l := enc.GetLeaf(); l != nil {
		fix(&l.Details, false)
		for _, c := range l.MultierrorCauses {
			VisitDetails(c, f)
		}
	}
}

// Families lists the distinct family names in enc (sorted), nested
// payloads included.
func Families(enc *errorspb.EncodedError) []string {
	set := map[string]bool{}
	VisitDetails(enc, func(d *errorspb.EncodedErrorDetails, _ bool) { set[d.ErrorTypeMark.FamilyName] = true })
	var out []string
	for k := range set {
		out = append(out, k)
	}
	sortStrings(out)
	return out
}

func sortStrings(a []string) {
	for i := 1; i < len(a); i++ {
		for j := i; j > 0 && a[j] < a[j-1]; j-- {
			a[j], a[j-1] = a[j-1], a[j]
		}
	}
}

// UnkSuffix is appended to family names and Any type URLs to make a
// node unknown to the receiving process (hook-free simulation of an
// unknowing process).
const UnkSuffix = "#UNK"

// Rename makes the nodes whose family is selected by pick unknown:
// the suffix is appended to family_name and to the payload's type
// URL (renaming the family alone is unsound: a leaf whose payload is
// itself an error would be rebuilt through the "payload is an error"
// shortcut).
func Rename(enc *errorspb.EncodedError, pick func(family string) bool) {
	VisitDetails(enc, func(d *errorspb.EncodedErrorDetails, _ bool) {
		fn := d.ErrorTypeMark.FamilyName
		if strings.HasSuffix(fn, UnkSuffix) || !pick(fn) {
			return
		}
		d.ErrorTypeMark.FamilyName = fn + UnkSuffix
		if d.FullDetails != nil {
			d.FullDetails.TypeUrl += UnkSuffix
		}
	})
}

// Restore undoes Rename.
func Restore(enc *errorspb.EncodedError) {
	VisitDetails(enc, func(d *errorspb.EncodedErrorDetails, _ bool) {
		fn := d.ErrorTypeMark.FamilyName
		if !strings.HasSuffix(fn, UnkSuffix) {
			return
		}
		d.ErrorTypeMark.FamilyName = strings.TrimSuffix(fn, UnkSuffix)
		if d.FullDetails != nil {
			d.FullDetails.TypeUrl = strings.TrimSuffix(d.FullDetails.TypeUrl, UnkSuffix)
		}
	})
}

// BlankBarrierReportables clears the reportable payload of barrier
// leaves: it embeds a %+v rendering of the hidden error, which
// legitimately changes once the hidden error has been re-materialised.
func BlankBarrierReportables(b []byte) []byte {
	e := Unmarshal(b)
	VisitDetails(&e, func(d *errorspb.EncodedErrorDetails, _ bool) {
		// (barriers and secondary-error layers: their safe details embed a
		// rendering of the hidden error, recomputed by every process that
		// knows the type)
		f := strings.TrimSuffix(d.ErrorTypeMark.FamilyName, UnkSuffix)
		if strings.HasSuffix(f, "barriers/*barriers.barrierErr") || strings.HasSuffix(f, "secondary/*secondary.withSecondaryError") {
			d.ReportablePayload = nil
		}
	})
	return Marshal(&e)
}

// Text renders an encoded error for failure messages.
func Text(b []byte) string {
	e := Unmarshal(b)
	return proto.MarshalTextString(&e)
}

// ForeignPlatform rewrites the platform recorded in every errno
// payload, which makes the receiver treat the errno as coming from
// another OS/architecture. It returns the number of payloads changed.
func ForeignPlatform(enc *errorspb.EncodedError) int { return ForeignPlatformAs(enc, "plan9:mips") }

// ForeignPlatformAs is ForeignPlatform with a given "GOOS:GOARCH".
func ForeignPlatformAs(enc *errorspb.EncodedError, arch string) int {
	n := 0
	VisitDetails(enc, func(d *errorspb.EncodedErrorDetails, _ bool) {
		if d.FullDetails == nil {
			return
		}
		var da types.DynamicAny
		if err := types.UnmarshalAny(d.FullDetails, &da); err != nil {
			return
		}
		if p, ok := da.Message.(*errorspb.ErrnoPayload); ok {
			p.Arch = arch
			// another platform numbers its errnos differently: the number
			// must not be interpreted with the local table
			p.OrigErrno += 1000
			if a, err := types.MarshalAny(p); err == nil {
				d.FullDetails = a
				n++
			}
		}
	})
	return n
}

// LegacyBarriers rewrites the visible barrier leaves (pre-order, the
// order of gen.Visible) into what the previous version of the
// library sent: old type name, plain message.
func LegacyBarriers(enc *errorspb.EncodedError, texts *[]string) {
	if w := enc.GetWrapper(); w != nil {
		LegacyBarriers(&w.Cause, texts)
		return
	}
	if l := enc.GetLeaf(); l != nil {
		const cur, old = "barriers/*barriers.barrierErr", "barriers/*barriers.barrierError"
		if strings.HasSuffix(l.Details.ErrorTypeMark.FamilyName, cur) && len(*texts) > 0 {
			l.Details.ErrorTypeMark.FamilyName = strings.TrimSuffix(l.Details.ErrorTypeMark.FamilyName, cur) + old
			l.Details.OriginalTypeName = l.Details.ErrorTypeMark.FamilyName
			l.Message = (*texts)[0]
			*texts = (*texts)[1:]
		}
		for _, c := range l.MultierrorCauses {
			LegacyBarriers(c, texts)
		}
	}
}


// FromLegacyBarrierPeer returns e as received from a process running
// the previous version of the library, whose barriers have another
// type name and a plain (not redactable) message: texts are the raw
// texts of the visible barrier layers in pre-order.
func FromLegacyBarrierPeer(e error, texts []string) error {
	enc := Unmarshal(Encode(e))
	LegacyBarriers(&enc, &texts)
	return errors.DecodeError(Ctx, enc)
}
