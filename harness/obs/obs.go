// Package obs holds the pure observers used by all checks. Each
// returns deterministic plain data.
package obs

import (
	"encoding/json"
	"fmt"
	"sort"
	"strings"

	"github.com/cockroachdb/errors"
	"github.com/cockroachdb/errors/errbase"
	"github.com/cockroachdb/errors/errorspb"
	"github.com/cockroachdb/errors/extgrpc"
	"github.com/cockroachdb/errors/exthttp"
	"github.com/cockroachdb/errors/oserror"
	"github.com/cockroachdb/redact"

	"verif/wire"
)

// Node is one node of the visible cause tree.
type Node struct {
	Text  string
	Type  string
	Multi bool
	Kids  []*Node
	Err   error
}

// Shape walks the visible cause tree with UnwrapOnce / UnwrapMulti.
func Shape(e error) *Node {
	n := &Node{Text: e.Error(), Type: fmt.Sprintf("%T", e), Err: e}
	if c := errbase.UnwrapOnce(e); c != nil {
		n.Kids = []*Node{Shape(c)}
	} else if cs := errbase.UnwrapMulti(e); len(cs) > 0 {
		n.Multi = true
		for _, c := range cs {
			if c != nil { // (a user type may list nil causes)
				n.Kids = append(n.Kids, Shape(c))
			}
		}
	}
	return n
}

func (n *Node) dump(b *strings.Builder, ind string, withType bool) {
	if withType {
		fmt.Fprintf(b, "%s%q multi=%v [%s]\n", ind, n.Text, n.Multi, n.Type)
	} else {
		fmt.Fprintf(b, "%s%q multi=%v\n", ind, n.Text, n.Multi)
	}
	for _, k := range n.Kids {
		k.dump(b, ind+"  ", withType)
	}
}

// Str renders the shape: text and arity of every node (types optional).
func (n *Node) Str(withType bool) string {
	var b strings.Builder
	n.dump(&b, "", withType)
	return b.String()
}

// All lists the errors of all visible nodes in pre-order.
func (n *Node) All() []error {
	out := []error{n.Err}
	for _, k := range n.Kids {
		out = append(out, k.All()...)
	}
	return out
}

// Count is the number of nodes.
func (n *Node) Count() int { return len(n.All()) }

// AllNodes lists all visible nodes of e in pre-order.
func AllNodes(e error) []error { return Shape(e).All() }

// SafeIs calls Is under recover.
func SafeIs(e, r error) (res bool, panicked interface{}) {
	defer func() {
		if p := recover(); p != nil {
			panicked = p
		}
	}()
	return errors.Is(e, r), nil
}

// KV is one named observation.
type KV struct{ K, V string }

// Opt selects parts of the accessor snapshot.
type Opt struct {
	NoStacks      bool // omit stack frames and one-line source
	NoSafeDetails bool // omit per-layer safe details
}

// Snapshot evaluates every public accessor on e.
func Snapshot(e error, o Opt) []KV {
	var out []KV
	add := func(k string, v interface{}) { out = append(out, KV{k, fmt.Sprintf("%q", fmt.Sprint(v))}) }
	add("hints", strings.Join(errors.GetAllHints(e), "|"))
	add("flathints", errors.FlattenHints(e))
	add("details", strings.Join(errors.GetAllDetails(e), "|"))
	add("flatdetails", errors.FlattenDetails(e))
	add("links", fmt.Sprintf("%+v", errors.GetAllIssueLinks(e)))
	tk := append([]string(nil), errors.GetTelemetryKeys(e)...)
	sort.Strings(tk)
	add("telemetry", strings.Join(tk, "|"))
	add("domain", errors.GetDomain(e))
	add("tags", strings.Join(Tags(e), "|"))
	add("hasassert", errors.HasAssertionFailure(e))
	add("isassert", errors.IsAssertionFailure(e))
	add("hasunimpl", errors.HasUnimplementedError(e))
	add("isunimpl", errors.IsUnimplementedError(e))
	add("haslink", errors.HasIssueLink(e))
	add("islink", errors.IsIssueLink(e))
	add("http", exthttp.GetHTTPCode(e, -1))
	add("grpc", extgrpc.GetGrpcCode(e))
	add("perm", oserror.IsPermission(e))
	add("exist", oserror.IsExist(e))
	add("notexist", oserror.IsNotExist(e))
	add("timeout", oserror.IsTimeout(e))
	if !o.NoStacks {
		f, l, fn, ok := errors.GetOneLineSource(e)
		add("source", fmt.Sprint(f, l, fn, ok))
	}
	i := 0
	for c := e; c != nil; c = errors.UnwrapOnce(c) {
		sd := errors.GetSafeDetails(c)
		hidden := strings.Contains(sd.OriginalTypeName, "barrierErr") || strings.Contains(sd.OriginalTypeName, "withSecondaryError")
		if !o.NoSafeDetails {
			if hidden {
				add(fmt.Sprintf("safedetails[%d]", i), fmt.Sprintf("%s %v (payload exempt)", sd.OriginalTypeName, sd.ErrorTypeMark))
			} else {
				add(fmt.Sprintf("safedetails[%d]", i), fmt.Sprintf("%s %v %q", sd.OriginalTypeName, sd.ErrorTypeMark, sd.SafeDetails))
			}
		}
		if !o.NoStacks {
			if st := errors.GetReportableStackTrace(c); st != nil {
				add(fmt.Sprintf("stack[%d]", i), fmt.Sprintf("%+v", st.Frames))
			} else {
				add(fmt.Sprintf("stack[%d]", i), "nil")
			}
		}
		i++
	}
	return out
}

// DiffKV returns the first difference between two snapshots.
func DiffKV(a, b []KV) (string, bool) {
	if len(a) != len(b) {
		return fmt.Sprintf("snapshot lengths differ: %d vs %d", len(a), len(b)), true
	}
	for i := range a {
		if a[i] != b[i] {
			return fmt.Sprintf("%s: %.500s  vs  %.500s", a[i].K, a[i].V, b[i].V), true
		}
	}
	return "", false
}

// DiffKey returns only the key of the first difference.
func DiffKey(a, b []KV) string {
	if len(a) != len(b) {
		return "length"
	}
	for i := range a {
		if a[i] != b[i] {
			k := a[i].K
			if j := strings.IndexByte(k, '['); j >= 0 {
				k = k[:j]
			}
			return k
		}
	}
	return ""
}

// Tags flattens GetContextTags: "key=value" per tag, ";" between buffers.
func Tags(e error) []string {
	var tags []string
	for _, b := range errors.GetContextTags(e) {
		if len(b.Get()) == 0 {
			// a layer whose context had no tag left carries no tag
			continue
		}
		for _, t := range b.Get() {
			tags = append(tags, t.Key()+"="+t.ValueStr())
		}
		tags = append(tags, ";")
	}
	return tags
}

// Sink is one output the library declares PII-free.
type Sink struct{ Name, Text string }

// Sinks collects every PII-free output of e: redacted renderings,
// safe details, the reportable payload of every wire node (nested
// payloads included), the Sentry event (as JSON) and its extras.
func Sinks(e error) []Sink {
	var out []Sink
	out = append(out, Sink{"redact %v", string(redact.Sprintf("%v", e).Redact())})
	out = append(out, Sink{"redact %+v", string(redact.Sprintf("%+v", e).Redact())})
	for i, d := range errors.GetAllSafeDetails(e) {
		out = append(out, Sink{fmt.Sprintf("safedetails[%d] %s", i, d.OriginalTypeName),
			d.OriginalTypeName + "\n" + d.ErrorTypeMark.FamilyName + "\n" + d.ErrorTypeMark.Extension + "\n" + strings.Join(d.SafeDetails, "\n")})
	}
	ev, extras := errors.BuildSentryReport(e)
	if ev != nil {
		if b, err := json.Marshal(ev); err == nil {
			out = append(out, Sink{"sentry event json", unescapeJSON(string(b))})
		}
		out = append(out, Sink{"sentry message", ev.Message})
		for i, ex := range ev.Exception {
			out = append(out, Sink{fmt.Sprintf("sentry exception[%d]", i), ex.Type + "\n" + ex.Value + "\n" + ex.Module})
		}
	}
	var ks []string
	for k := range extras {
		ks = append(ks, k)
	}
	sort.Strings(ks)
	for _, k := range ks {
		out = append(out, Sink{"sentry extra " + k, k + "\n" + fmt.Sprint(extras[k])})
	}
	enc := errors.EncodeError(wire.Ctx, e)
	i := 0
	wire.VisitDetails(&enc, func(d *errorspb.EncodedErrorDetails, _ bool) {
		out = append(out, Sink{fmt.Sprintf("wire reportable[%d] %s", i, d.OriginalTypeName), strings.Join(d.ReportablePayload, "\n")})
		i++
	})
	return out
}

// unescapeJSON undoes the \uXXXX / \" escaping of a JSON document so
// that tokens split by escapes are still found. The result is not
// JSON; it is only searched.
func unescapeJSON(s string) string {
	var v interface{}
	if err := json.Unmarshal([]byte(s), &v); err != nil {
		return s
	}
	var b strings.Builder
	var rec func(interface{})
	rec = func(x interface{}) {
		switch t := x.(type) {
		case map[string]interface{}:
			var ks []string
			for k := range t {
				ks = append(ks, k)
			}
			sort.Strings(ks)
			for _, k := range ks {
				b.WriteString(k)
				b.WriteByte('\n')
				rec(t[k])
			}
		case []interface{}:
			for _, y := range t {
				rec(y)
			}
		case string:
			b.WriteString(t)
			b.WriteByte('\n')
		default:
			fmt.Fprintln(&b, t)
		}
	}
	rec(v)
	return b.String()
}

// Verbs used by the rendering observers.
var PlainVerbs = []string{"%v", "%s", "%+v", "%q", "%x", "%X", "%#v", "%d"}

// Renderings formats e with every verb through fmt (directly and via
// Formattable) and through redact.
func Renderings(e error) []KV {
	var out []KV
	for _, v := range PlainVerbs {
		out = append(out, KV{"fmt " + v, fmt.Sprintf(v, e)})
		out = append(out, KV{"formattable " + v, fmt.Sprintf(v, errbase.Formattable(e))})
	}
	for _, v := range []string{"%v", "%s", "%+v", "%q", "%x"} {
		out = append(out, KV{"redact " + v, string(redact.Sprintf(v, e))})
	}
	return out
}

// HasFmtPanic scans a rendering for the marker fmt prints when a
// Format/Error method panicked (fmt swallows such panics).
func HasFmtPanic(s string) bool {
	return strings.Contains(s, "(PANIC=") || strings.Contains(s, "%!v(PANIC") || strings.Contains(s, "PANIC=")
}

// Try runs f and reports a panic as a string.
func Try(f func()) (panicked string) {
	defer func() {
		if p := recover(); p != nil {
			panicked = fmt.Sprint(p)
			if i := strings.IndexByte(panicked, '\n'); i >= 0 {
				panicked = panicked[:i]
			}
		}
	}()
	f()
	return ""
}

// Exercise uses e in every way the API offers — every verb through
// fmt, Formattable and redact, every accessor, safe details, report,
// re-encoding, Is, UnwrapAll — and returns the first operation that
// panicked (also when fmt swallowed the panic), or "".
func Exercise(e error) (op string, panicked string) {
	verbs := []string{"%v", "%s", "%+v", "%q", "%x", "%X", "%#v", "%d", "%10.3v", "%-20s", "%+q"}
	ops := []struct {
		name string
		f    func() string
	}{
		{"Error()", func() string { return e.Error() }},
		{"fmt", func() string {
			var b strings.Builder
			for _, v := range verbs {
				b.WriteString(fmt.Sprintf(v, e))
			}
			return b.String()
		}},
		{"Formattable", func() string {
			var b strings.Builder
			for _, v := range verbs {
				b.WriteString(fmt.Sprintf(v, errbase.Formattable(e)))
			}
			return b.String()
		}},
		{"redact", func() string {
			var b strings.Builder
			for _, v := range verbs {
				s := redact.Sprintf(v, e)
				b.WriteString(string(s))
				b.WriteString(string(s.Redact()))
				b.WriteString(s.StripMarkers())
			}
			return b.String()
		}},
		{"accessors", func() string { return fmt.Sprint(Snapshot(e, Opt{})) }},
		{"GetAllSafeDetails", func() string { return fmt.Sprint(errors.GetAllSafeDetails(e)) }},
		{"BuildSentryReport", func() string {
			ev, ex := errors.BuildSentryReport(e)
			b, _ := json.Marshal(ev)
			return string(b) + fmt.Sprint(ex)
		}},
		{"EncodeError+Marshal", func() string { return string(wire.Encode(e)) }},
		{"re-decode", func() string { return wire.Decode(wire.Encode(e)).Error() }},
		{"Is(e,e)", func() string { return fmt.Sprint(errors.Is(e, e), errors.IsAny(e, e)) }},
		{"Is(copy of a layer)", func() string {
			// Is against a transferred copy of every layer, both ways: equal
			// messages with type lists of different lengths (a transparent
			// wrapper and what it wraps) meet in the mark comparison.
			var b strings.Builder
			for _, n := range AllNodes(e) {
				r := wire.Decode(wire.Encode(n))
				b.WriteString(fmt.Sprint(errors.Is(e, r), errors.Is(r, e), errors.IsAny(e, r, n)))
			}
			return b.String()
		}},
		{"UnwrapAll", func() string { return fmt.Sprintf("%T", errors.UnwrapAll(e)) }},
		{"HasType/If", func() string {
			_, ok := errors.If(e, func(error) (interface{}, bool) { return nil, false })
			return fmt.Sprint(errors.HasType(e, e), ok)
		}},
	}
	for _, o := range ops {
		var out string
		if p := Try(func() { out = o.f() }); p != "" {
			return o.name, p
		}
		if HasFmtPanic(out) {
			i := strings.Index(out, "PANIC=")
			end := i + 160
			if end > len(out) {
				end = len(out)
			}
			return o.name, "panic caught by fmt: " + out[i:end]
		}
	}
	return "", ""
}

// Try2 runs a boolean function under recover.
func Try2(f func() bool) (res bool, panicked string) {
	panicked = Try(func() { res = f() })
	return
}
